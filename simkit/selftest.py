"""./check selftest-determinism [--max-tasks N]   and   ./check selftest-sensitivity
determinism: for every claimed property the same seeds are executed (a) twice in this configuration, (b) in fresh interpreters
under PYTHONHASHSEED=0 and 12345, (c) with 1 worker and with 16 workers; all per-run digests (event-log hashes) must agree."""
import json
import os
import subprocess
import sys
import tempfile

VERIF = os.path.dirname(os.path.dirname(os.path.abspath(__file__)))
PROPS = ["C02", "C05", "C11", "C12", "C13", "C14", "C15", "C17", "C18", "C19"]


def _digests(prop, seed, hashseed, workers, max_tasks):
    fd, path = tempfile.mkstemp(prefix="digests_", suffix=".json")
    os.close(fd)
    env = dict(os.environ, PYTHONHASHSEED=str(hashseed), VERIF_SEED=str(seed))
    cmd = [sys.executable, os.path.join(VERIF, "check"), prop, "--digests", path, "--workers", str(workers), "--max-tasks", str(max_tasks)]
    p = subprocess.run(cmd, capture_output=True, text=True, env=env, timeout=3600)
    try:
        with open(path) as f:
            d = json.load(f)
    except Exception:
        d = {"error": p.stdout[-500:] + p.stderr[-500:]}
    os.unlink(path)
    return d


def determinism(args):
    max_tasks = args.max_tasks or 200
    bad = 0
    props = PROPS if not os.environ.get("SELFTEST_PROPS") else os.environ["SELFTEST_PROPS"].split(",")
    for prop in props:
        for seed in (args.seed, args.seed + 1):
            base = _digests(prop, seed, 0, 16, max_tasks)
            configs = {"same again": (0, 16), "PYTHONHASHSEED=12345": (12345, 16), "1 worker": (0, 1), "hashseed 777, 4 workers": (777, 4)}
            for name, (hs, w) in configs.items():
                other = _digests(prop, seed, hs, w, max_tasks)
                diff = [k for k in base if base.get(k) != other.get(k)] + [k for k in other if k not in base]
                herr = [k for k, v in base.items() if str(v).startswith("HARNESS-ERROR")]
                status = "ok" if not diff and not herr and "error" not in base else "MISMATCH"
                print(f"determinism {prop} seed={seed} [{name}]: {len(base)} runs compared: {status}", flush=True)
                if status != "ok":
                    bad += 1
                    for k in (diff + herr)[:3]:
                        print(f"   run {k}: {str(base.get(k))[:100]} vs {str(other.get(k))[:100]}")
    if bad:
        print(f"HARNESS-ERROR determinism self-test: {bad} configuration(s) differ")
        return 2
    print("determinism self-test passed")
    return 0


def main(target, args):
    if target == "selftest-determinism":
        return determinism(args)
    if target == "selftest-sensitivity":
        return subprocess.call([sys.executable, os.path.join(VERIF, "tools", "sensitivity.py")])
    print("unknown self-test", target)
    return 2
