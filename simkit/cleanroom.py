"""Clean-room reference computations.

A forking server is started from the check's main process *before* any flodym computation has happened in it.
For every request it forks a child that computes the answer and exits; the server itself never computes, so
every answer comes from a process whose flodym module / class state is pristine.  Comparing an in-process result
with the clean-room result of the same inputs exposes state that leaks between objects through module- or
class-level caches - something the in-process 'fresh object' oracle cannot see, because the fresh object lives in
the same polluted process.

Nothing here is random or timed; the request is a pure function call across a process boundary."""

import os
import pickle
import socket
import socketserver
import struct
import tempfile
import multiprocessing

ENV = "VERIF_CLEANROOM_SOCKET"
_HANDLERS = {}


def register(name, fn):
    _HANDLERS[name] = fn


def _send(sock, obj):
    blob = pickle.dumps(obj, protocol=pickle.HIGHEST_PROTOCOL)
    sock.sendall(struct.pack("!I", len(blob)) + blob)


def _recv(sock):
    head = b""
    while len(head) < 4:
        part = sock.recv(4 - len(head))
        if not part:
            raise EOFError("clean-room connection closed")
        head += part
    n = struct.unpack("!I", head)[0]
    buf = bytearray()
    while len(buf) < n:
        part = sock.recv(min(1 << 16, n - len(buf)))
        if not part:
            raise EOFError("clean-room connection closed")
        buf += part
    return pickle.loads(bytes(buf))


class _Handler(socketserver.BaseRequestHandler):
    def handle(self):
        try:
            name, payload = _recv(self.request)
            try:
                out = ("ok", _HANDLERS[name](payload))
            except Exception as e:  # noqa - reported to the requester, who decides what it means
                out = ("raise", type(e).__name__)
            _send(self.request, out)
        except Exception:  # noqa
            pass


class _Server(socketserver.ForkingMixIn, socketserver.UnixStreamServer):
    max_children = 48
    block_on_close = False
    request_queue_size = 128


def _serve(path, ready):
    import logging
    logging.getLogger().handlers = [logging.NullHandler()]
    with _Server(path, _Handler) as srv:
        ready.set()
        srv.serve_forever(poll_interval=0.2)


def start():
    """start the server (fork) and export its socket path to this process and its future children"""
    d = tempfile.mkdtemp(prefix="cleanroom_")
    path = os.path.join(d, "sock")
    ctx = multiprocessing.get_context("fork")
    ready = ctx.Event()
    os.environ[ENV] = path  # before the fork: the server's children issue requests themselves
    proc = ctx.Process(target=_serve, args=(path, ready), daemon=True)
    proc.start()
    if not ready.wait(20):
        proc.terminate()
        os.environ.pop(ENV, None)
        return None
    return proc


def stop(proc):
    path = os.environ.pop(ENV, None)
    if proc is not None:
        proc.terminate()
        proc.join(5)
    if path:
        try:
            os.unlink(path)
            os.rmdir(os.path.dirname(path))
        except OSError:
            pass


def available():
    return bool(os.environ.get(ENV))


def request(name, payload, timeout=120):
    path = os.environ.get(ENV)
    if not path:
        return None
    with socket.socket(socket.AF_UNIX, socket.SOCK_STREAM) as s:
        s.settimeout(timeout)
        s.connect(path)
        _send(s, (name, payload))
        return _recv(s)
