"""Engine base class: what the runner needs from an engine."""

import hashlib
import json


def jhash(obj, n=16):
    return hashlib.sha256(json.dumps(obj, sort_keys=True, default=str).encode()).hexdigest()[:n]


class Engine:
    NAME = "engine"
    LEVEL = {}

    # ---- planning
    def budget(self, prop, tier):
        return 150 if tier == "quick" else 1500

    def tasks(self, prop, tier, seed):
        raise NotImplementedError

    def run_task(self, task, prop, seed, tier):
        run = self.generate(task, prop, seed, tier)
        res = self.execute(run, prop)
        if res.get("violation"):
            run = dict(run)
            run["task"] = {k: v for k, v in task.items() if k not in ("keep",)}
            res["run"] = run
        if task.get("keep"):
            res["sample"] = {"task": {k: v for k, v in task.items() if k != "keep"}, "run": run}
        return res

    def generate(self, task, prop, seed, tier):
        raise NotImplementedError

    def execute(self, run, prop):
        raise NotImplementedError

    # ---- minimisation support
    def shrink(self, run):
        return []

    def class_key(self, tags):
        return tags.get("cls")

    def same_class(self, a, b):
        return self.class_key(a) == self.class_key(b)

    # ---- evidence texts
    def rule(self, prop):
        return ""

    def components(self, prop):
        return {}

    def assumptions(self, prop):
        return []

    def extra_coverage(self, prop, tier, results):
        return {}
