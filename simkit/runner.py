"""Batch runner: seeded search over many simulated runs on a fork pool, minimisation,
replay files, known-findings matching, evidence files, exit codes (DESIGN.md 3.5-3.8)."""

import concurrent.futures as cf
import faulthandler
import hashlib
import json
import multiprocessing
import os
import signal
import subprocess
import sys
import time
import traceback
from collections import Counter

from .kernel import HarnessError, silence_logging
from . import cleanroom

VERIF = os.path.dirname(os.path.dirname(os.path.abspath(__file__)))
# scratch runs (mutants, self-tests, anything not against /repo itself) never write into /verif/evidence
_OUT = os.environ.get("VERIF_OUT_DIR") or (
    VERIF if os.path.abspath(os.environ.get("FLODYM_REPO", "/repo")) == "/repo" else os.path.join("/tmp", "verif_scratch_out"))
REPLAY_DIR = os.path.join(_OUT, "replays")
EVIDENCE_DIR = os.path.join(_OUT, "evidence")
FINDINGS_FILE = os.path.join(VERIF, "known_findings.json")
RUN_TIMEOUT_S = 900

_ENGINE = None  # set before fork


class _RunTimeout(BaseException):
    pass


def _alarm(signum, frame):
    raise _RunTimeout()


def flodym_rev():
    try:
        rev = subprocess.run(
            ["git", "-C", os.environ.get("FLODYM_REPO", "/repo"), "rev-parse", "--short", "HEAD"],
            capture_output=True, text=True, timeout=20).stdout.strip()
        dirty = subprocess.run(
            ["git", "-C", os.environ.get("FLODYM_REPO", "/repo"), "status", "--porcelain", "--untracked-files=no"],
            capture_output=True, text=True, timeout=20).stdout.strip()
        return rev + ("-dirty" if dirty else "")
    except Exception:  # noqa
        return "unknown"


# ----------------------------------------------------------------------------- worker side
_PROC_TASKS = []  # tasks this OS process has executed so far (workers are forked from a parent that executes none)


def _work_chunk(args):
    prop, seed, tier, tasks, deadline = args
    eng = _ENGINE
    out = []
    devnull = open(os.devnull, "w")
    old_stdout = sys.stdout
    sys.stdout = devnull
    silence_logging()
    try:
        signal.signal(signal.SIGALRM, _alarm)
        for task in tasks:
            if time.time() > deadline:
                out.append({"skipped": True, "task": task})
                continue
            signal.setitimer(signal.ITIMER_REAL, RUN_TIMEOUT_S)
            try:
                res = eng.run_task(task, prop, seed, tier)
                res["task"] = task
                if res.get("violation"):
                    # should the violation not reproduce from its own op list, the runs this process executed before it are
                    # the rest of its history (state that leaks between objects through module / class level caches)
                    res["proc_history"] = [{k: v for k, v in t.items() if k != "keep"} for t in _PROC_TASKS]
                out.append(res)
            except _RunTimeout:
                out.append({"harness_error": f"run exceeded {RUN_TIMEOUT_S}s", "task": task})
            except HarnessError as e:
                out.append({"harness_error": f"HarnessError: {e}\n{traceback.format_exc()}", "task": task})
            except Exception as e:  # noqa  - exceptions of the harness itself, never a verdict
                out.append({"harness_error": f"{type(e).__name__}: {e}\n{traceback.format_exc()}", "task": task})
            finally:
                signal.setitimer(signal.ITIMER_REAL, 0)
                _PROC_TASKS.append(task)
    finally:
        sys.stdout = old_stdout
        devnull.close()
    return out


def _minimise_job(args):
    prop, run, clause, tags, budget_s = args
    devnull = open(os.devnull, "w")
    old_stdout = sys.stdout
    sys.stdout = devnull
    try:
        return minimise(_ENGINE, run, prop, clause, tags, budget_s)
    finally:
        sys.stdout = old_stdout
        devnull.close()


# ----------------------------------------------------------------------------- minimisation
def _fails_same(eng, run, prop, clause, tags):
    try:
        res = eng.execute(run, prop)
    except Exception:  # harness trouble on a mangled candidate: not a reproduction
        return None
    v = res.get("violation")
    if v and v["clause"] == clause and eng.same_class(v.get("tags", {}), tags):
        return res
    return None


def minimise(eng, run, prop, clause, tags, budget_s=20.0):
    """ddmin over the op list, then engine-specific simplifications, keeping a candidate only
    if it fails with the same property, clause and finding class."""
    t_end = time.time() + budget_s
    best = run
    ops = list(run["ops"])
    n = 2
    while len(ops) >= 2 and time.time() < t_end:
        chunk = max(1, len(ops) // n)
        reduced = False
        for i in range(0, len(ops), chunk):
            if time.time() > t_end:
                break
            cand_ops = ops[:i] + ops[i + chunk:]
            if not cand_ops:
                continue
            cand = dict(best)
            cand["ops"] = cand_ops
            if _fails_same(eng, cand, prop, clause, tags):
                ops = cand_ops
                best = cand
                n = max(n - 1, 2)
                reduced = True
                break
        if not reduced:
            if chunk == 1:
                break
            n = min(n * 2, len(ops))
    # engine specific simplifications, to a fixed point
    changed = True
    while changed and time.time() < t_end:
        changed = False
        for cand in eng.shrink(best):
            if time.time() > t_end:
                break
            if _fails_same(eng, cand, prop, clause, tags):
                best = cand
                changed = True
                break
    return best


# ----------------------------------------------------------------------------- findings
def load_findings(prop):
    if not os.path.exists(FINDINGS_FILE):
        return []
    with open(FINDINGS_FILE) as f:
        data = json.load(f)
    return [e for e in data.get("findings", []) if e.get("property") == prop and e.get("status") == "open"]


def match_finding(findings, v):
    for f in findings:
        if f.get("clause") != v["clause"]:
            continue
        tags = v.get("tags", {})
        if all(tags.get(k) == val for k, val in f.get("match", {}).items()):
            return f
    return None


# ----------------------------------------------------------------------------- replay files
def write_replay(prop, eng, seed, run, res):
    os.makedirs(REPLAY_DIR, exist_ok=True)
    v = res["violation"]
    doc = {
        "format": 1,
        "property": prop,
        "clause": v["clause"],
        "engine": eng.NAME,
        "seed": seed,
        "task": run.get("task"),
        "run": {k: val for k, val in run.items() if k != "task"},
        "violation": {"step": v["step"], "detail": v["detail"], "tags": v.get("tags", {})},
        "digest": res["digest"],
        "flodym_rev": flodym_rev(),
    }
    blob = json.dumps(doc, indent=1, sort_keys=True)
    d8 = hashlib.sha256(json.dumps(doc["run"], sort_keys=True).encode()).hexdigest()[:8]
    path = os.path.join(REPLAY_DIR, f"{prop}-{seed}-{d8}.json")
    with open(path, "w") as f:
        f.write(blob + "\n")
    return path


def replay(eng, prop, path, quiet=False):
    with open(path) as f:
        doc = json.load(f)
    run = doc["run"]
    res = eng.execute(run, prop)
    v = res.get("violation")
    out = {"violation": v, "digest": res["digest"]}
    if not quiet:
        print("REPLAY-RESULT " + json.dumps(
            {"clause": v["clause"] if v else None, "step": v["step"] if v else None, "digest": res["digest"]},
            sort_keys=True))
    return out


def _history_violation(prop, eng, seed, tier, rep):
    """a violation that depends on the runs its process executed before: find a short suffix of that process history which,
    executed in a fresh interpreter, ends in the same violation; returns the replay path or None"""
    clause = rep["violation"]["clause"]
    last = {k: v for k, v in rep["task"].items() if k != "keep"}
    seq = list(rep["proc_history"]) + [last]
    os.makedirs(REPLAY_DIR, exist_ok=True)

    def attempt(tasks):
        doc = {"format": "process-history", "property": prop, "engine": eng.NAME, "seed": seed, "tier": tier, "clause": clause,
               "tasks": tasks, "violation": {k: rep["violation"].get(k) for k in ("step", "detail", "tags")},
               "note": "the tasks are executed in this order in one fresh interpreter; the last one must end in the violation",
               "flodym_rev": flodym_rev()}
        d8 = hashlib.sha256(json.dumps(tasks, sort_keys=True).encode()).hexdigest()[:8]
        path = os.path.join(REPLAY_DIR, f"{prop}-{seed}-hist-{d8}.json")
        with open(path, "w") as f:
            f.write(json.dumps(doc, indent=1, sort_keys=True) + "\n")
        ok = True
        for _ in range(2):  # must fail the same way twice
            same, got = _verify_replay_fresh(prop, path, clause, None, None, loose=True)
            ok = ok and same
            if not ok:
                break
        if not ok:
            os.unlink(path)
            return None
        return path

    best, k, tried = None, 1, 0
    while tried < 12:
        cand = seq[-(k + 1):] if k + 1 < len(seq) else seq
        tried += 1
        path = attempt(cand)
        if path:
            best = (cand, path)
            break
        if len(cand) == len(seq):
            break
        k *= 2
    if not best:
        return None
    cand, path = best
    i = 0
    while len(cand) <= 9 and i < len(cand) - 1 and tried < 24:  # drop single earlier runs
        smaller = cand[:i] + cand[i + 1:]
        tried += 1
        p2 = attempt(smaller)
        if p2:
            os.unlink(path)
            cand, path = smaller, p2
        else:
            i += 1
    return path


def _verify_replay_fresh(prop, path, clause, step, digest, loose=False):
    """re-execute the replay file in a fresh interpreter; must reproduce clause, step, digest"""
    cmd = [sys.executable, os.path.join(VERIF, "check"), prop, "--replay", path]
    env = dict(os.environ)
    env["PYTHONHASHSEED"] = "0"
    p = subprocess.run(cmd, capture_output=True, text=True, timeout=600, env=env)
    for line in p.stdout.splitlines():
        if line.startswith("REPLAY-RESULT "):
            got = json.loads(line[len("REPLAY-RESULT "):])
            if loose:
                return got["clause"] == clause, got
            return got["clause"] == clause and got["step"] == step and got["digest"] == digest, got
    return False, {"stdout": p.stdout[-2000:], "stderr": p.stderr[-2000:]}


# ----------------------------------------------------------------------------- evidence
def _abbrev(o, limit=40):
    """samples are written out for a reader: long item lists are cut with a note"""
    if isinstance(o, dict):
        return {k: _abbrev(v, limit) for k, v in o.items()}
    if isinstance(o, (list, tuple)):
        if len(o) > limit:
            return [_abbrev(x, limit) for x in o[:8]] + [f"... ({len(o)} entries in total)"]
        return [_abbrev(x, limit) for x in o]
    return o


def write_evidence(prop, doc):
    os.makedirs(EVIDENCE_DIR, exist_ok=True)
    path = os.path.join(EVIDENCE_DIR, f"{prop}.json")
    tmp = path + ".tmp"
    with open(tmp, "w") as f:
        json.dump(doc, f, indent=1, sort_keys=True, default=str)
        f.write("\n")
    os.replace(tmp, path)
    return path


# ----------------------------------------------------------------------------- main entry
def run_check(eng, prop, tier, seed, workers=None, budget_s=None, max_tasks=None, verbose=True, stride=None):
    """returns the process exit code"""
    global _ENGINE
    _ENGINE = eng
    silence_logging()
    t0 = time.time()
    workers = workers or min(16, os.cpu_count() or 1)
    budget_s = budget_s or eng.budget(prop, tier)
    deadline = t0 + budget_s
    tasks = eng.tasks(prop, tier, seed)
    if max_tasks:
        tasks = tasks[:max_tasks]
    if stride and stride > 1:
        tasks = tasks[::stride]
    for i, t in enumerate(tasks):
        t["n"] = i
    keep = {0, len(tasks) // 2, len(tasks) - 1}
    for i in keep:
        if 0 <= i < len(tasks):
            tasks[i]["keep"] = True
    nchunks = max(1, min(len(tasks), workers * 6))
    chunks = [tasks[i::nchunks] for i in range(nchunks)]
    print(f"[{prop}] engine={eng.NAME} tier={tier} seed={seed} tasks={len(tasks)} workers={workers} "
          f"budget={budget_s}s flodym={flodym_rev()}", flush=True)

    results = []
    harness_errors = []
    ctx = multiprocessing.get_context("fork")
    faulthandler.enable()
    room = cleanroom.start() if getattr(eng, "USES_CLEANROOM", False) else None
    try:
        with cf.ProcessPoolExecutor(max_workers=workers, mp_context=ctx) as pool:
            futs = [pool.submit(_work_chunk, (prop, seed, tier, ch, deadline)) for ch in chunks]
            hard = budget_s + RUN_TIMEOUT_S + 60
            done, not_done = cf.wait(futs, timeout=hard)
            if not_done:
                harness_errors.append(f"{len(not_done)} worker chunks did not finish within {hard}s")
                for f in not_done:
                    f.cancel()
                for p in list(getattr(pool, "_processes", {}).values()):
                    try:
                        p.kill()
                    except Exception:  # noqa
                        pass
            for f in done:
                try:
                    results.extend(f.result())
                except Exception as e:  # noqa
                    harness_errors.append(f"worker died: {type(e).__name__}: {e}")

            results.sort(key=lambda r: r["task"]["n"])
            skipped = [r for r in results if r.get("skipped")]
            herrs = [r for r in results if r.get("harness_error")]
            for r in herrs[:3]:
                harness_errors.append(f"task {r['task']}: {r['harness_error']}")
            ok = [r for r in results if not r.get("skipped") and not r.get("harness_error")]

            # ---- violations: group, minimise a few representatives, verify replay
            findings = load_findings(prop)
            viols = [r for r in ok if r.get("violation")]
            groups = {}
            for r in viols:
                v = r["violation"]
                f = match_finding(findings, v)
                key = (v["clause"], eng.class_key(v.get("tags", {})), f["id"] if f else None)
                groups.setdefault(key, []).append(r)
            reports = []
            jobs = []
            for key in sorted(groups, key=lambda k: (str(k[0]), str(k[1]), str(k[2]))):
                rs = groups[key]
                rep = min(rs, key=lambda r: (len(r["run"]["ops"]), r["task"]["n"]))
                jobs.append((key, rep, len(rs)))
            unknown_jobs = [j for j in jobs if j[0][2] is None][:6]
            known_jobs = [j for j in jobs if j[0][2] is not None]
            mfuts = {}
            for key, rep, n in unknown_jobs:
                v = rep["violation"]
                mfuts[key] = pool.submit(_minimise_job, (prop, rep["run"], v["clause"], v.get("tags", {}), 25.0))
            for key, rep, n in unknown_jobs:
                try:
                    small = mfuts[key].result(timeout=180)
                except Exception as e:  # noqa
                    harness_errors.append(f"minimiser failed: {type(e).__name__}: {e}")
                    small = rep["run"]
                reports.append((key, rep, n, small))
    except Exception as e:  # noqa
        harness_errors.append(f"pool failure: {type(e).__name__}: {e}\n{traceback.format_exc()}")
        ok, skipped, reports, known_jobs, findings, viols = [], [], [], [], [], []

    exit_code = 0
    n_viol_lines = 0
    for key, rep, n, small in reports:
        res = eng.execute(small, prop)
        v = res.get("violation")
        if not v or v["clause"] != key[0]:
            # minimised candidate does not fail in the parent: fall back to the original run
            small = rep["run"]
            res = eng.execute(small, prop)
            v = res.get("violation")
        if not v:
            # not a function of the run's own operations: try it as a function of what its process had executed before
            hpath = _history_violation(prop, eng, seed, tier, rep) if rep.get("proc_history") is not None else None
            if hpath:
                v0 = rep["violation"]
                print(f"  clause={v0['clause']} step={v0['step']} runs_hit={n} detail={v0['detail']} "
                      f"[needs the runs executed before it in the same process: see the replay file]")
                print(f"VIOLATION property={prop} replay={hpath}", flush=True)
                n_viol_lines += 1
                exit_code = 1
                continue
            harness_errors.append(f"violation {key} of task {rep['task']} did not reproduce in the parent process")
            continue
        small = dict(small)
        small["task"] = rep["task"]
        path = write_replay(prop, eng, seed, small, res)
        same, got = _verify_replay_fresh(prop, path, v["clause"], v["step"], res["digest"])
        if not same:
            # reproduced here (a process that has executed other runs) but not in a fresh interpreter: history dependent as well
            hpath = _history_violation(prop, eng, seed, tier, rep) if rep.get("proc_history") is not None else None
            if hpath:
                os.unlink(path)
                v0 = rep["violation"]
                print(f"  clause={v0['clause']} step={v0['step']} runs_hit={n} detail={v0['detail']} "
                      f"[needs the runs executed before it in the same process: see the replay file]")
                print(f"VIOLATION property={prop} replay={hpath}", flush=True)
                n_viol_lines += 1
                exit_code = 1
                continue
            harness_errors.append(f"replay of {path} in a fresh interpreter differs: {got}")
            continue
        print(f"  clause={v['clause']} step={v['step']} runs_hit={n} ops={len(small['ops'])} detail={v['detail']}")
        print(f"VIOLATION property={prop} replay={path}", flush=True)
        n_viol_lines += 1
        exit_code = 1
    seen_f = set()
    for key, rep, n in known_jobs:
        fid = key[2]
        if fid in seen_f:
            continue
        seen_f.add(fid)
        f = [x for x in findings if x["id"] == fid][0]
        print(f"KNOWN-FINDING: property={prop} {f['what']} (id={fid}, hit in {n} runs)", flush=True)

    # ---- evidence
    wall = time.time() - t0
    faults, probes, clauses = Counter(), Counter(), Counter()
    sigs, states = set(), set()
    steps = 0
    n_faultfree = 0
    for r in ok:
        faults.update(r.get("faults", {}))
        probes.update(r.get("probes", {}))
        clauses.update(r.get("clauses", {}))
        steps += r.get("steps", 0)
        if r.get("nontrivial"):
            sigs.add(r["sig"])
        states.update(r.get("states", []))
        if not r.get("faults"):
            n_faultfree += 1
    samples = [_abbrev(r["sample"]) for r in ok if r.get("sample") is not None][:3]
    if not samples and ok:
        samples = [{"task": ok[0]["task"]}]
    n_eval = len(ok)
    cov = {
        "evaluations": n_eval,
        "distinct_nontrivial": len(sigs),
        "rule": eng.rule(prop),
        "samples": samples,
        "exhaustive": False,
        "steps_executed": steps,
        "simulated_time_note": "flodym has no clock; logical operation steps are the only time there is",
        "faults_fired": dict(sorted(faults.items())),
        "fault_free_runs": n_faultfree,
        "oracle_clauses_evaluated": dict(sorted(clauses.items())),
        "reach_probes": dict(sorted(probes.items())),
        "distinct_abstract_states": len(states),
        "runs_per_hour": int(n_eval / wall * 3600) if wall > 0 else 0,
        "seeds_per_invocation": 1,
        "seed_note": "one VERIF_SEED per invocation; every run derives its own generator from (engine, property, seed, task kind, task index)",
        "workers": workers,
        "tasks_planned": len(tasks),
        "tasks_skipped_by_budget": len(skipped),
        "components": eng.components(prop),
        "violating_runs": len(viols),
        "known_finding_runs": sum(n for _, _, n in known_jobs),
        "flodym_rev": flodym_rev(),
    }
    cov.update(eng.extra_coverage(prop, tier, ok))
    doc = {
        "property_id": prop,
        "tier": tier,
        "seed": seed,
        "level": eng.LEVEL[prop],
        "coverage": cov,
        "assumptions": eng.assumptions(prop),
        "wall_s": round(wall, 2),
        "violations": n_viol_lines,
    }
    if n_eval >= 1 and len(sigs) >= 2:
        write_evidence(prop, doc)
    else:
        harness_errors.append(f"nothing explored (evaluations={n_eval}, distinct={len(sigs)})")

    cleanroom.stop(room)
    if harness_errors:
        for h in harness_errors:
            print("HARNESS-ERROR " + h.replace("\n", "\n    "), flush=True)
        if exit_code == 0:
            exit_code = 2
    if verbose:
        print(f"[{prop}] runs={n_eval} distinct_nontrivial={len(sigs)} steps={steps} "
              f"faults_fired={sum(faults.values())} violations={n_viol_lines} "
              f"skipped={len(skipped)} wall={wall:.1f}s exit={exit_code}", flush=True)
    return exit_code


def run_replay(eng, prop, path):
    global _ENGINE
    _ENGINE = eng
    silence_logging()
    room = cleanroom.start() if getattr(eng, "USES_CLEANROOM", False) else None
    devnull = open(os.devnull, "w")
    old = sys.stdout
    sys.stdout = devnull
    try:
        with open(path) as f:
            doc = json.load(f)
        if doc.get("format") == "process-history":
            for t in doc["tasks"][:-1]:
                try:
                    eng.run_task(dict(t), prop, doc["seed"], doc["tier"])
                except Exception:  # noqa - only the state these runs leave behind matters here
                    pass
            res = eng.run_task(dict(doc["tasks"][-1]), prop, doc["seed"], doc["tier"])
            res.setdefault("digest", None)
        else:
            res = eng.execute(doc["run"], prop)
    finally:
        sys.stdout = old
        devnull.close()
        cleanroom.stop(room)
    v = res.get("violation")
    print("REPLAY-RESULT " + json.dumps(
        {"clause": v["clause"] if v else None, "step": v["step"] if v else None, "digest": res["digest"]},
        sort_keys=True))
    if not v:
        print(f"[{prop}] replay {path}: no violation on this tree")
        return 0
    f = match_finding(load_findings(prop), v)
    if f:
        print(f"KNOWN-FINDING: property={prop} {f['what']} (id={f['id']})")
        return 0
    print(f"  clause={v['clause']} step={v['step']} detail={v['detail']}")
    print(f"VIOLATION property={prop} replay={path}")
    return 1


# ----------------------------------------------------------------------------- determinism support
def run_digests(eng, prop, tier, seed, workers, max_tasks, out_path):
    """executes the first max_tasks tasks and writes {task index: run digest} - used by the determinism self-test"""
    global _ENGINE
    _ENGINE = eng
    silence_logging()
    tasks = eng.tasks(prop, tier, seed)
    # a spread over all task kinds
    kinds = {}
    for t in tasks:
        kinds.setdefault(t["kind"], []).append(t)
    per = max(1, max_tasks // max(1, len(kinds)))
    sel = []
    for k in sorted(kinds):
        sel += kinds[k][:per]
    for i, t in enumerate(sel):
        t["n"] = i
    deadline = time.time() + 3600
    room = cleanroom.start() if getattr(eng, "USES_CLEANROOM", False) else None
    chunks = [sel[i::max(1, workers * 2)] for i in range(max(1, workers * 2))]
    chunks = [c for c in chunks if c]
    results = []
    if workers <= 1:
        for c in chunks:
            results.extend(_work_chunk((prop, seed, tier, c, deadline)))
    else:
        ctx = multiprocessing.get_context("fork")
        with cf.ProcessPoolExecutor(max_workers=workers, mp_context=ctx) as pool:
            for r in pool.map(_work_chunk, [(prop, seed, tier, c, deadline) for c in chunks]):
                results.extend(r)
    out = {}
    for r in results:
        if r.get("harness_error"):
            out[str(r["task"]["n"])] = "HARNESS-ERROR " + r["harness_error"][:200]
        else:
            v = r.get("violation")
            out[str(r["task"]["n"])] = r["digest"] + ("" if not v else "|" + v["clause"]) + "|" + r["sig"]
    with open(out_path, "w") as f:
        json.dump(out, f, sort_keys=True)
    cleanroom.stop(room)
    return 0
