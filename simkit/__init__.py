"""Deterministic-simulation kernel for the flodym checks (see /verif/DESIGN.md section 3)."""
