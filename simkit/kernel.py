"""Kernel primitives: seeded generator, event log + digest, violations, crash injector (F2),
log capture, snapshots.  Nothing in here reads a clock, id(), hash() or iterates a set."""

import hashlib
import json
import logging
import os
import random
import sys

import numpy as np

REPO = os.environ.get("FLODYM_REPO", "/repo")
FLODYM_DIR = os.path.join(REPO, "flodym") + os.sep


# ----------------------------------------------------------------------------- rng
class Rng:
    """One generator per run, seeded from a string (sha512 based -> identical in every process)."""

    def __init__(self, *parts):
        self.r = random.Random("/".join(str(p) for p in parts))

    def chance(self, p):
        return self.r.random() < p

    def randint(self, a, b):
        return self.r.randint(a, b)

    def choice(self, seq):
        seq = list(seq)
        return seq[self.r.randrange(len(seq))]

    def sample(self, seq, k):
        return self.r.sample(list(seq), k)

    def shuffled(self, seq):
        seq = list(seq)
        self.r.shuffle(seq)
        return seq

    def subset(self, seq, kmin=0, kmax=None):
        seq = list(seq)
        kmax = len(seq) if kmax is None else min(kmax, len(seq))
        kmin = min(kmin, kmax)
        k = self.r.randint(kmin, kmax)
        return self.r.sample(seq, k)

    def weighted(self, table):
        """table: list of (item, weight)"""
        tot = sum(w for _, w in table)
        x = self.r.random() * tot
        for it, w in table:
            x -= w
            if x < 0:
                return it
        return table[-1][0]


# ----------------------------------------------------------------------------- violations
class Violation(Exception):
    """Raised by an oracle.  clause identifies which sentence of the property is broken;
    tags are structural facts used to match known findings and to keep minimisation on the
    same violation class."""

    def __init__(self, clause, detail, **tags):
        super().__init__(f"{clause}: {detail}")
        self.clause = clause
        self.detail = detail
        self.tags = tags


class HarnessError(BaseException):
    """Anything that is the harness' fault.  BaseException so that flodym's `except Exception`
    blocks cannot swallow it."""


# ----------------------------------------------------------------------------- event log
def _nojson(o):
    if isinstance(o, (np.integer,)):
        return int(o)
    if isinstance(o, (np.floating,)):
        return float(o)
    if isinstance(o, (np.bool_,)):
        return bool(o)
    if isinstance(o, tuple):
        return list(o)
    raise TypeError(f"event log entries must be plain data, got {type(o)}")


class EventLog:
    def __init__(self):
        self.events = []

    def add(self, kind_, **data):
        ev = {"seq": len(self.events), "kind": kind_}
        ev.update(data)
        self.events.append(ev)

    def digest(self):
        blob = json.dumps(self.events, sort_keys=True, default=_nojson, allow_nan=True)
        return hashlib.sha256(blob.encode()).hexdigest()


def vdig(a):
    """digest of an ndarray's content (dtype, shape, bytes)"""
    if a is None:
        return "none"
    a = np.asarray(a)
    h = hashlib.sha1()
    h.update(str(a.dtype).encode())
    h.update(str(a.shape).encode())
    h.update(np.ascontiguousarray(a).tobytes())
    return h.hexdigest()[:12]


def detach_exc(e):
    """an exception that is kept (for its class and message) must not keep the frames it passed through: pydantic's
    ValidationError is not traversed by the garbage collector, so exception -> traceback -> frame -> harness state -> exception
    cycles are never freed and a worker grows by megabytes per hundred runs"""
    seen = 0
    while e is not None and seen < 10:
        e.__traceback__ = None
        if hasattr(e, "errors") and callable(e.errors):
            # pydantic keeps the exceptions raised inside validators (with their tracebacks) in the line errors
            try:
                for err in e.errors():
                    inner = (err.get("ctx") or {}).get("error")
                    if isinstance(inner, BaseException) and inner is not e:
                        detach_exc(inner)
            except Exception:  # noqa
                pass
        nxt = e.__cause__ or e.__context__
        e = nxt
        seen += 1


def exc_class(e):
    return type(e).__name__


# ----------------------------------------------------------------------------- F2 crash injector
class SimInterrupt(MemoryError):
    """a failed allocation on the line where it is raised"""


class SimKbdInterrupt(KeyboardInterrupt):
    """Ctrl-C / notebook interrupt"""


INTERRUPTS = (SimInterrupt, SimKbdInterrupt)


class Crash:
    """Context manager.  Counts 'line' events in frames whose file is below one of `prefixes`
    and raises an interrupt when the count reaches `at` (None = count only)."""

    def __init__(self, at=None, flavour="mem", prefixes=None):
        self.at = at
        self.flavour = flavour
        self.prefixes = tuple(prefixes) if prefixes else (FLODYM_DIR,)
        self.count = 0
        self.fired = None

    def _global(self, frame, event, arg):
        if frame.f_code.co_filename.startswith(self.prefixes):
            return self._local
        return None

    def _local(self, frame, event, arg):
        if event == "line":
            self.count += 1
            if self.at is not None and self.count == self.at and self.fired is None:
                fn = frame.f_code.co_filename
                for p in self.prefixes:
                    if fn.startswith(p):
                        fn = fn[len(p):]
                        break
                self.fired = f"{fn}:{frame.f_lineno}"
                sys.settrace(None)
                if self.flavour == "kbd":
                    raise SimKbdInterrupt("simulated interrupt")
                raise SimInterrupt("simulated allocation failure")
        return self._local

    def __enter__(self):
        self._prev = sys.gettrace()
        sys.settrace(self._global)
        return self

    def __exit__(self, *exc):
        sys.settrace(self._prev)
        return False


# ----------------------------------------------------------------------------- log capture
def silence_logging():
    """flodym logs through the root logger; keep its text away from our stdout/stderr"""
    root = logging.getLogger()
    root.handlers = [logging.NullHandler()]


class LogCapture(logging.Handler):
    """Captures records that reach the root logger while active."""

    def __init__(self):
        super().__init__(level=0)
        self.records = []

    def emit(self, record):
        try:
            msg = record.getMessage()
        except Exception:  # noqa
            msg = str(record.msg)
        self.records.append((record.levelno, msg))

    def __enter__(self):
        self.root = logging.getLogger()
        self._old_handlers = self.root.handlers[:]
        self.root.handlers = [self]
        return self

    def __exit__(self, *exc):
        self.root.handlers = self._old_handlers
        return False

    def warnings(self):
        return [m for lv, m in self.records if lv >= logging.WARNING]


# ----------------------------------------------------------------------------- snapshots
def dim_sig(d):
    return (d.letter, d.name, tuple(d.items), None if d.dtype is None else d.dtype.__name__)


def dims_sig(ds):
    return tuple(dim_sig(d) for d in ds.dim_list)


def snap_array(a):
    v = a.values
    if isinstance(v, np.generic):  # numpy scalar left behind by a ufunc on a 0-d array
        v = np.asarray(v)
    if isinstance(v, np.ndarray):
        c = v.copy()
        c.flags.writeable = v.flags.writeable  # an operation that leaves an input read-only has altered it (the next in-place write fails)
        return (dims_sig(a.dims), c, str(v.dtype), v.shape)
    return (dims_sig(a.dims), v, type(v).__name__, None)


def values_equal(x, y):
    if isinstance(x, np.generic):
        x = np.asarray(x)
    if isinstance(y, np.generic):
        y = np.asarray(y)
    if isinstance(x, np.ndarray) and isinstance(y, np.ndarray):
        if x.shape != y.shape or x.dtype != y.dtype:
            return False
        if x.dtype.kind in "fc":
            return bool(np.array_equal(x, y, equal_nan=True))
        return bool(np.array_equal(x, y))
    if isinstance(x, np.ndarray) or isinstance(y, np.ndarray):
        return False
    return x == y or (x != x and y != y)


def same_as_snap(snap, a):
    dsig, v, dt, shp = snap
    if dims_sig(a.dims) != dsig:
        return False
    if isinstance(v, np.ndarray) and isinstance(a.values, np.ndarray) and v.flags.writeable != a.values.flags.writeable:
        return False
    return values_equal(v, a.values)


def shape_invariant_ok(a):
    v = a.values
    if not isinstance(v, (np.ndarray, np.generic)):  # a numpy scalar has shape () and is accepted for 0-d
        return False
    letters = a.dims.letters
    if len(set(letters)) != len(letters):
        return False
    return v.shape == tuple(len(d.items) for d in a.dims.dim_list)
