"""dimsim - C14: histories of DimensionSet operations against an ordered-list model,
plus the exhaustive pair table over a 4-dimension alphabet (DESIGN.md 5.2)."""

import itertools

import numpy as np

from simkit.engine import Engine, jhash
from simkit.kernel import EventLog, Rng, Violation, detach_exc, dim_sig, exc_class

from flodym import Dimension, DimensionSet, FlodymArray

NAMES = {"a": "Alpha", "b": "Beta", "c": "Gamma", "d": "Delta", "e": "Epsilon", "t": "Time"}
BINOPS = ["or", "and", "sub", "xor", "add", "union_with", "intersect_with", "difference_with", "ior", "iand", "isub", "ixor", "iadd"]
MUTS = ["append", "prepend", "insert", "expand_by", "extend", "replace", "drop", "remove"]


def table_world():
    dims = []
    for letter, n in zip("abcd", (2, 3, 4, 5)):
        dims.append({"letter": letter, "name": NAMES[letter], "items": [f"{letter}{k}q" for k in range(n)], "dtype": "str"})
    return {"dims": dims, "cap": 64, "table": True}


def sublists(n):
    out = []
    for k in range(n + 1):
        out.extend(list(p) for p in itertools.permutations(range(n), k))
    return out


TABLE_SUBLISTS = sublists(4)  # 65


def gen_world(rng):
    n = rng.randint(3, 6)
    dims = []
    letters = rng.sample("abcdet", n)
    for letter in letters:
        ln = rng.choice([1, 2, 2, 3, 3, 4])
        kind = rng.choice(["str", "int", "untyped"])
        if kind == "int":
            items = [1990 + 5 * k for k in range(ln)]
            dt = "int"
        elif kind == "str":
            items = [f"{letter}{k}x" for k in range(ln)]
            dt = "str"
        else:
            items = [f"{letter}{k}u" for k in range(ln)]
            dt = None
        dims.append({"letter": letter, "name": NAMES[letter], "items": items, "dtype": dt})
    for letter in rng.sample(letters, rng.randint(1, 2)):
        ln = rng.choice([1, 2, 3, 4])
        dims.append({"letter": letter, "name": NAMES[letter] + "Twin", "items": [f"{letter}{k}w" for k in range(ln)], "dtype": "str"})
    if rng.chance(0.3):
        # two dimensions with the same name but different letters (e.g. origin and destination region)
        free = [l for l in "abcdet" if l not in letters]
        if free:
            src = rng.choice(dims[:n])
            dims.append({"letter": free[0], "name": src["name"], "items": [f"{free[0]}{k}n" for k in range(rng.randint(1, 4))], "dtype": "str"})
    return {"dims": dims, "cap": 8}


def make_dim(spec):
    dt = {"int": int, "str": str, None: None}[spec["dtype"]]
    return Dimension(name=spec["name"], letter=spec["letter"], items=list(spec["items"]), dtype=dt)


class _St:
    pass


class DimSim(Engine):
    NAME = "dimsim"
    LEVEL = {"C14": "exploration"}

    # ------------------------------------------------------------------ planning
    def tasks(self, prop, tier, seed):
        n_hist = 20000 if tier == "quick" else 400000
        tasks = [{"kind": "table", "i": i, "j": j} for i in range(65) for j in range(65)]
        tasks += [{"kind": "single", "i": i} for i in range(65)]
        tasks += [{"kind": "hist", "idx": k} for k in range(n_hist)]
        return tasks

    def budget(self, prop, tier):
        return 240 if tier == "quick" else 2400

    def generate(self, task, prop, seed, tier):
        if task["kind"] == "table":
            return self._gen_table(task["i"], task["j"])
        if task["kind"] == "single":
            return self._gen_single(task["i"])
        rng = Rng(self.NAME, prop, seed, task["idx"])
        return self._gen_hist(rng)

    def _gen_table(self, i, j):
        L, R = TABLE_SUBLISTS[i], TABLE_SUBLISTS[j]
        ops = [{"op": "new", "dims": L}, {"op": "new", "dims": R}]
        for f in BINOPS:
            ops.append({"op": "bin", "f": f, "l": 0, "r": 1, "probe": None})
            if len(R) == 1:
                ops.append({"op": "bin", "f": f, "l": 0, "r": {"dim": R[0]}, "probe": None})
        return {"world": table_world(), "ops": ops}

    def _gen_single(self, i):
        L = TABLE_SUBLISTS[i]
        ops = [{"op": "new", "dims": L}, {"op": "lookups", "s": 0}]
        for k in range(len(L) + 1):
            for sel in itertools.permutations(L, k):
                for form in ("letter", "name", "mixed"):
                    keys = []
                    for n, d in enumerate(sel):
                        kf = form if form != "mixed" else ("letter" if n % 2 else "name")
                        keys.append([d, kf])
                    ops.append({"op": "subset", "s": 0, "keys": keys, "via": "get_subset", "probe": None})
                    if k > 0:
                        ops.append({"op": "subset", "s": 0, "keys": keys, "via": "getitem", "probe": None})
        return {"world": table_world(), "ops": ops}

    def _gen_probe(self, rng, nd):
        if rng.chance(0.15):
            return None
        f = rng.choice(["append", "prepend", "insert", "expand_by", "replace", "drop"])
        return {"f": f, "dim": rng.randint(0, nd - 1), "dim2": rng.randint(0, nd - 1),
                "pos": rng.randint(0, 5), "keyform": rng.choice(["letter", "name"])}

    def _gen_hist(self, rng):
        world = gen_world(rng)
        nd = len(world["dims"])
        enabled = set(rng.subset(["new", "bin", "mut", "subset", "copy", "mkarray", "dimops", "lookups"], 4, 8))
        enabled.add("new")
        n_ops = rng.randint(5, 30)
        ops = []
        for _ in range(rng.randint(1, 3)):
            ops.append({"op": "new", "dims": rng.subset(range(nd), 0, 5)})
        while len(ops) < n_ops:
            kind = rng.weighted([("new", 2), ("bin", 5), ("mut", 8), ("subset", 4), ("copy", 2),
                                 ("mkarray", 3), ("dimops", 2), ("lookups", 1)])
            if kind not in enabled:
                continue
            s = rng.randint(0, 7)
            if kind == "new":
                ops.append({"op": "new", "dims": rng.subset(range(nd), 0, 5)})
            elif kind == "bin":
                r = rng.randint(0, 7) if rng.chance(0.8) else {"dim": rng.randint(0, nd - 1)}
                ops.append({"op": "bin", "f": rng.choice(BINOPS), "l": s, "r": r, "probe": self._gen_probe(rng, nd)})
            elif kind == "mut":
                f = rng.choice(MUTS)
                op = {"op": "mut", "f": f, "s": s, "inplace": rng.chance(0.5), "dim": rng.randint(0, nd - 1),
                      "dims": rng.subset(range(nd), 0, 3), "target": rng.randint(0, 5), "keyform": rng.choice(["letter", "name"]),
                      "pos": rng.randint(-5, 5), "probe": self._gen_probe(rng, nd)}
                ops.append(op)
            elif kind == "subset":
                keys = None if rng.chance(0.3) else [[rng.randint(0, 5), rng.choice(["letter", "name"])] for _ in range(rng.randint(0, 4))]
                ops.append({"op": "subset", "s": s, "keys": keys, "rel": True, "via": rng.choice(["get_subset", "getitem"]),
                            "probe": self._gen_probe(rng, nd)})
            elif kind == "copy":
                ops.append({"op": "copy", "s": s, "probe": self._gen_probe(rng, nd)})
            elif kind == "mkarray":
                ops.append({"op": "mkarray", "s": s, "via": rng.choice(["ctor", "superset", "full"]), "perm": rng.randint(0, 23)})
            elif kind == "dimops":
                f = rng.choice(["dimadd", "dim_plus_set", "as_dimset", "empty"])
                ops.append({"op": f, "l": rng.randint(0, nd - 1), "r": rng.randint(0, nd - 1), "s": s, "probe": self._gen_probe(rng, nd)})
            else:
                ops.append({"op": "lookups", "s": s})
        return {"world": world, "ops": ops}

    # ------------------------------------------------------------------ execution
    def execute(self, run, prop):
        st = _St()
        world = run["world"]
        st.D = [make_dim(s) for s in world["dims"]]
        st.SIG = [dim_sig(d) for d in st.D]
        st.LET = [s["letter"] for s in world["dims"]]
        st.NAME = [s["name"] for s in world["dims"]]
        st.cap = world.get("cap", 8)
        st.sets, st.models, st.arrays = [], [], []
        st.nres = 0
        st.log = EventLog()
        st.clauses = {}
        st.probes = {}
        st.sig = []
        st.states = set()
        st.mutations = 0
        violation = None
        steps = 0
        for step, op in enumerate(run["ops"]):
            steps += 1
            st.log.add("invoke", step=step, op=op)
            try:
                self._step(st, op)
                self._post(st, None, None)
            except Violation as v:
                violation = {"clause": v.clause, "step": step, "detail": v.detail, "tags": v.tags}
                st.log.add("violation", step=step, clause=v.clause)
                break
            st.log.add("state", step=step, pool=["".join(st.LET[i] for i in m) for m in st.models], n_arrays=len(st.arrays))
            st.states.add(jhash([sorted("".join(st.LET[i] for i in m) for m in st.models), len(st.arrays)]))
        nontrivial = (st.mutations > 0 or world.get("table")) and sum(st.clauses.values()) > 0
        return {"violation": violation, "digest": st.log.digest(), "steps": steps, "faults": dict(st.probes.get("_faults", {})),
                "probes": {k: v for k, v in st.probes.items() if k != "_faults"}, "clauses": st.clauses,
                "sig": jhash(st.sig), "nontrivial": bool(nontrivial), "states": sorted(st.states)}

    # -- helpers
    def _cnt(self, st, clause):
        st.clauses[clause] = st.clauses.get(clause, 0) + 1

    def _probe_cnt(self, st, name):
        st.probes[name] = st.probes.get(name, 0) + 1

    def _fault(self, st, name):
        f = st.probes.setdefault("_faults", {})
        f[name] = f.get(name, 0) + 1

    def _sigs_of(self, real):
        return [dim_sig(d) for d in list(real)]

    def _expect(self, st, real, model, clause, what, loose=()):
        self._cnt(st, clause)
        if not isinstance(real, DimensionSet):
            raise Violation(clause, f"{what}: result is {type(real).__name__}, not a DimensionSet", cls=clause)
        got = self._sigs_of(real)
        exp = [st.SIG[i] for i in model]
        if loose:  # same letter, different dimension in the two operands: the property does not say whose is kept
            got = [g if g[0] not in loose else (g[0],) for g in got]
            exp = [e if e[0] not in loose else (e[0],) for e in exp]
        if got != exp:
            raise Violation(clause, f"{what}: got {[g[0] + ':' + g[1] for g in got]} expected {[e[0] + ':' + e[1] for e in exp]}", cls=clause)

    def _slot(self, st, k):
        if not st.sets:
            return None
        return k % len(st.sets)

    def _store(self, st, real, model):
        if len(st.sets) < st.cap:
            st.sets.append(real)
            st.models.append(list(model))
        else:
            k = st.nres % st.cap
            st.sets[k] = real
            st.models[k] = list(model)
        st.nres += 1

    def _post(self, st, mutated, clause_for_others):
        """every pooled set equals its model; every non-exempt array still has its dims and shape"""
        for k, (real, model) in enumerate(zip(st.sets, st.models)):
            if real is mutated:
                continue
            got = self._sigs_of(real)
            exp = [st.SIG[i] for i in model]
            if got != exp:
                cl = clause_for_others or "receiver-unchanged"
                raise Violation(cl, f"pooled set #{k} changed without being the receiver of an in-place operation: "
                                    f"now {[g[0] for g in got]} expected {[e[0] for e in exp]}", cls=cl)
        for n, a in enumerate(st.arrays):
            if a["exempt"]:
                continue
            got = [dim_sig(d) for d in list(a["arr"].dims)]
            if got != a["model"] or a["arr"].values.shape != tuple(len(g[2]) for g in a["model"]):
                cl = "array-unaffected"
                raise Violation(cl, f"array #{n} built earlier changed its dims: now {[g[0] for g in got]} shape {a['arr'].values.shape}", cls=cl)

    def _call(self, st, fn):
        try:
            return ("ret", fn())
        except Exception as e:  # noqa
            st.log.add("raise", exc=exc_class(e))
            detach_exc(e)
            return ("raise", e)

    def _key(self, st, idx, form):
        if st.NAME.count(st.NAME[idx]) > 1:
            return st.LET[idx]  # two dimensions of the universe share this name (origin / destination): only the letter identifies it
        return st.LET[idx] if form == "letter" else st.NAME[idx]

    def _finish_oop(self, st, op, out, expected, clause, what, operands, loose=()):
        """common tail of every out-of-place operation"""
        kind, val = out
        if expected == "RAISE":
            self._cnt(st, "clash-rejected")
            self._fault(st, "illformed_call")
            if kind != "raise":
                raise Violation("clash-rejected", f"{what}: a letter clash / overlap was accepted", cls="clash-rejected")
            st.sig.append((op["op"], op.get("f"), "refused"))
            self._post(st, None, "receiver-unchanged")
            return
        if kind == "raise":
            raise Violation(clause, f"{what}: raised {exc_class(val)} on a well-formed call", cls=clause)
        self._expect(st, val, expected, clause, what, loose)
        if loose:  # resynchronise the model on what was observed for the unspecified positions
            obs = self._sigs_of(val)
            expected = [i if st.LET[i] not in loose else next((j for j in range(len(st.D)) if st.SIG[j] == obs[p]), i)
                        for p, i in enumerate(expected)]
        for o in operands:
            if val is o:
                raise Violation("independent-result", f"{what}: returned the receiver object itself", cls="independent-result")
        self._post(st, None, "receiver-unchanged")
        self._store(st, val, expected)
        st.sig.append((op["op"], op.get("f"), "ok", len(expected)))
        st.log.add("return", letters="".join(st.LET[i] for i in expected))
        self._probe(st, op.get("probe"), val, list(expected))

    def _apply_mut(self, st, real, model, f, dim, dims, key_idx, keyform, pos, inplace):
        """returns (expected_model | 'RAISE' | None (=outside the specified domain), thunk)"""
        letters = [st.LET[i] for i in model]
        D = st.D
        # "operations without inplace=True": half of the out-of-place calls do not mention the switch at all
        kw = {} if (not inplace and (dim + key_idx + pos + len(dims)) % 2 == 0) else {"inplace": inplace}
        if not kw:
            st.probes["mutator_called_without_inplace_argument"] = st.probes.get("mutator_called_without_inplace_argument", 0) + 1
        dim = dim % len(D)
        dims = [i % len(D) for i in dims]
        if f in ("append", "prepend", "insert"):
            if f == "insert":
                p = pos % (len(model) + 1)
                pyidx = p
                if pos < 0 and len(model) > 0:
                    # a negative position in -len..-1 means "before that element", as for a Python list
                    pyidx = -((-pos - 1) % len(model)) - 1
                    p = len(model) + pyidx
            new = D[dim]
            clash = st.LET[dim] in letters
            if f == "append":
                exp = model + [dim]
                th = lambda: real.append(new, **kw)
            elif f == "prepend":
                exp = [dim] + model
                th = lambda: real.prepend(new, **kw)
            else:
                exp = model[:p] + [dim] + model[p:]
                th = lambda: real.insert(pyidx, new, **kw)
            return ("RAISE" if clash else exp), th
        if f in ("expand_by", "extend"):
            seen, ds = set(), []
            for i in dims:
                if st.LET[i] not in seen:
                    seen.add(st.LET[i])
                    ds.append(i)
            clash = any(st.LET[i] in letters for i in ds)
            added = [D[i] for i in ds]
            th = (lambda: real.expand_by(added, **kw)) if f == "expand_by" else (lambda: real.extend(added, **kw))
            return ("RAISE" if clash else model + ds), th
        if f in ("drop", "remove"):
            if not model:
                return None, None
            k = key_idx % len(model)
            key = self._key(st, model[k], keyform)
            th = (lambda: real.drop(key, **kw)) if f == "drop" else (lambda: real.remove(key, **kw))
            return model[:k] + model[k + 1:], th
        if f == "replace":
            if not model:
                return None, None
            k = key_idx % len(model)
            key = self._key(st, model[k], keyform)
            new = D[dim]
            if st.LET[dim] == letters[k]:
                return None, None  # same letter as the replaced one: the property is silent
            clash = st.LET[dim] in letters
            th = lambda: real.replace(key, new, **kw)
            return ("RAISE" if clash else model[:k] + [dim] + model[k + 1:]), th
        raise AssertionError(f)

    def _probe(self, st, probe, real, model):
        """apply an in-place mutator to a fresh out-of-place result; nothing else may change"""
        if not probe:
            return
        exp, th = self._apply_mut(st, real, model, probe["f"], probe["dim"], [probe["dim"], probe["dim2"]],
                                  probe["pos"], probe["keyform"], probe["pos"], True)
        if exp is None or exp == "RAISE":
            return
        kind, val = self._call(st, th)
        if kind == "raise":
            return  # judged by the 'mut' operations, not by the probe
        st.mutations += 1
        self._probe_cnt(st, "independence_probe_" + probe["f"])
        self._cnt(st, "independent-result")
        # find the stored model of `real` and update it
        for k, r in enumerate(st.sets):
            if r is real:
                st.models[k] = list(exp)
        # arrays built from this set earlier keep their own dimension set: they stay under watch
        self._post(st, real, "independent-result")
        got = self._sigs_of(real)
        if got != [st.SIG[i] for i in exp]:
            raise Violation("mutator-result", f"in-place {probe['f']} on a fresh result gave {[g[0] for g in got]}", cls="mutator-result")

    # -- the step
    def _step(self, st, op):
        kind = op["op"]
        D = st.D
        if kind == "new":
            dims = [i % len(D) for i in op["dims"]]
            letters = [st.LET[i] for i in dims]
            dup = len(set(letters)) != len(letters)
            out = self._call(st, lambda: DimensionSet(dim_list=[D[i] for i in dims]))
            self._finish_oop(st, op, out, "RAISE" if dup else dims, "constructor", f"DimensionSet({letters})", [])
            return
        if kind == "empty":
            out = self._call(st, lambda: DimensionSet.empty())
            self._finish_oop(st, op, out, [], "constructor", "DimensionSet.empty()", [])
            return
        if kind == "dimadd":
            l, r = op["l"] % len(D), op["r"] % len(D)
            out = self._call(st, lambda: D[l] + D[r])
            self._finish_oop(st, op, out, "RAISE" if st.LET[l] == st.LET[r] else [l, r], "constructor", "Dimension + Dimension", [])
            return
        if kind == "as_dimset":
            l = op["l"] % len(D)
            out = self._call(st, lambda: D[l].as_dimset())
            self._finish_oop(st, op, out, [l], "constructor", "Dimension.as_dimset()", [])
            return
        if kind == "dim_plus_set":
            s = self._slot(st, op["s"])
            if s is None:
                return
            l = op["l"] % len(D)
            real, model = st.sets[s], st.models[s]
            overlap = st.LET[l] in [st.LET[i] for i in model]
            out = self._call(st, lambda: D[l] + real)
            self._finish_oop(st, op, out, "RAISE" if overlap else [l] + model, "plus-overlap", "Dimension + DimensionSet", [real])
            return
        if kind == "copy":
            s = self._slot(st, op["s"])
            if s is None:
                return
            real, model = st.sets[s], st.models[s]
            out = self._call(st, lambda: real.copy())
            self._finish_oop(st, op, out, list(model), "independent-result", "copy()", [real])
            return
        if kind == "subset":
            s = self._slot(st, op["s"])
            if s is None:
                return
            real, model = st.sets[s], st.models[s]
            if op["keys"] is None:
                out = self._call(st, lambda: real.get_subset())
                self._finish_oop(st, op, out, list(model), "subset-order", "get_subset()", [real])
                return
            sel, keys, seen = [], [], set()
            for k, form in op["keys"]:
                if op.get("rel"):
                    if not model:
                        continue
                    idx = model[k % len(model)]
                else:
                    idx = k
                    if idx not in model:
                        continue
                if idx in seen:
                    continue
                seen.add(idx)
                sel.append(idx)
                keys.append(self._key(st, idx, form))
            keys = tuple(keys)
            if op["via"] == "getitem":
                if not keys:
                    return
                out = self._call(st, lambda: real[keys])
            else:
                out = self._call(st, lambda: real.get_subset(keys))
            self._finish_oop(st, op, out, sel, "subset-order", f"subset{keys}", [real])
            return
        if kind == "bin":
            l = self._slot(st, op["l"])
            if l is None:
                return
            L, ML = st.sets[l], st.models[l]
            if isinstance(op["r"], dict):
                ridx = op["r"]["dim"] % len(D)
                R, MR = D[ridx], [ridx]
                operands = [L]
            else:
                r = self._slot(st, op["r"])
                R, MR = st.sets[r], st.models[r]
                operands = [L, R]
            letL = [st.LET[i] for i in ML]
            letR = [st.LET[i] for i in MR]
            f = op["f"]
            union = ML + [i for i in MR if st.LET[i] not in letL]
            inter = [i for i in ML if st.LET[i] in letR]
            diff = [i for i in ML if st.LET[i] not in letR]
            rdiff = [i for i in MR if st.LET[i] not in letL]
            table = {
                "or": (lambda: L | R, union, "union-order"),
                "union_with": (lambda: L.union_with(R), union, "union-order"),
                "and": (lambda: L & R, inter, "intersection-order"),
                "intersect_with": (lambda: L.intersect_with(R), inter, "intersection-order"),
                "sub": (lambda: L - R, diff, "difference-order"),
                "difference_with": (lambda: L.difference_with(R), diff, "difference-order"),
                "xor": (lambda: L ^ R, diff + rdiff, "symdiff"),
                "add": (lambda: L + R, "RAISE" if inter else union, "plus-overlap"),
            }
            def aug(sym):
                # the augmented form on another name of the left set: `alias |= R` rebinds the alias; the set itself is no receiver of
                # an in-place operation and must stay what it was
                def th_():
                    alias = L
                    if sym == "|":
                        alias |= R
                    elif sym == "&":
                        alias &= R
                    elif sym == "-":
                        alias -= R
                    elif sym == "^":
                        alias ^= R
                    else:
                        alias += R
                    return alias
                return th_
            table.update({"ior": (aug("|"), union, "union-order"), "iand": (aug("&"), inter, "intersection-order"),
                          "isub": (aug("-"), diff, "difference-order"), "ixor": (aug("^"), diff + rdiff, "symdiff"),
                          "iadd": (aug("+"), "RAISE" if inter else union, "plus-overlap")})
            th, exp, clause = table[f]
            # same letter, different dimension in the two operands: a union consists of the left set plus the right set's *new*
            # dimensions, so the left one stays; for the intersection the property does not say whose object is kept
            loose = () if f in ("or", "union_with", "add", "xor", "ior", "iadd", "ixor") else \
                tuple(st.LET[i] for i in ML for j in MR if st.LET[i] == st.LET[j] and i != j)
            out = self._call(st, th)
            self._finish_oop(st, op, out, exp, clause, f"{''.join(letL)} {f} {''.join(letR)}", operands, loose)
            return
        if kind == "mut":
            s = self._slot(st, op["s"])
            if s is None:
                return
            real, model = st.sets[s], st.models[s]
            inplace = bool(op["inplace"])
            exp, th = self._apply_mut(st, real, model, op["f"], op["dim"] % len(D), [i % len(D) for i in op["dims"]],
                                      op["target"], op["keyform"], op["pos"], inplace)
            if exp is None:
                return
            what = f"{op['f']}(inplace={inplace}) on {''.join(st.LET[i] for i in model)}"
            out = self._call(st, th)
            if not inplace:
                self._finish_oop(st, op, out, exp, "mutator-result", what, [real])
                return
            if exp == "RAISE":
                self._cnt(st, "clash-rejected")
                self._fault(st, "illformed_call")
                if out[0] != "raise":
                    raise Violation("clash-rejected", f"{what}: a letter clash was accepted", cls="clash-rejected")
                st.sig.append(("mut", op["f"], True, "refused"))
                return  # _post checks that the receiver is unchanged
            if out[0] == "raise":
                raise Violation("mutator-result", f"{what}: raised {exc_class(out[1])} on a well-formed call", cls="mutator-result")
            st.mutations += 1
            st.models[s] = list(exp)
            for k, r in enumerate(st.sets):  # the same object may sit in two slots
                if r is real:
                    st.models[k] = list(exp)
            self._expect(st, real, exp, "mutator-result", what)
            self._post(st, real, "independent-result")
            st.sig.append(("mut", op["f"], True, "ok", len(exp)))
            return
        if kind == "mkarray":
            s = self._slot(st, op["s"])
            if s is None:
                return
            real, model = st.sets[s], st.models[s]
            try:
                if op["via"] == "ctor":
                    arr = FlodymArray(dims=real)
                elif op["via"] == "full":
                    arr = FlodymArray.full(real, 1.5)
                else:
                    perms = list(itertools.permutations([st.LET[i] for i in model]))
                    letters = perms[op["perm"] % len(perms)]
                    arr = FlodymArray.from_dims_superset(real, dim_letters=tuple(letters))
            except Exception as e:  # noqa - array construction is not judged by C14
                st.log.add("raise", exc=exc_class(e))
                return
            if len(st.arrays) >= 6:
                st.arrays.pop(0)
            st.arrays.append({"arr": arr, "model": [dim_sig(d) for d in list(arr.dims)], "src": real, "exempt": False})
            self._probe_cnt(st, "array_built")
            st.sig.append(("mkarray", op["via"]))
            return
        if kind == "lookups":
            s = self._slot(st, op["s"])
            if s is None:
                return
            self._lookups(st, st.sets[s], st.models[s])
            st.sig.append(("lookups", len(st.models[s])))
            return
        raise AssertionError(kind)

    def _lookups(self, st, real, model):
        self._cnt(st, "lookup")

        def bad(what):
            raise Violation("lookup", what, cls="lookup")

        letters = tuple(st.LET[i] for i in model)
        names = tuple(st.NAME[i] for i in model)
        lens = tuple(len(st.SIG[i][2]) for i in model)
        try:
            if tuple(real.letters) != letters:
                bad(f"letters {real.letters} != {letters}")
            if tuple(real.names) != names:
                bad(f"names {real.names} != {names}")
            if real.string != "".join(letters):
                bad("string")
            if tuple(real.shape) != lens:
                bad(f"shape {real.shape} != {lens}")
            ts = 1
            for n in lens:
                ts *= n
            if real.total_size != ts:
                bad(f"total_size {real.total_size} != {ts}")
            if real.ndim != len(model) or len(real) != len(model) or bool(real) != (len(model) > 0):
                bad("ndim/len/bool")
            for pos, i in enumerate(model):
                for key in ((st.LET[i], st.NAME[i]) if names.count(st.NAME[i]) == 1 else (st.LET[i],)):
                    if dim_sig(real[key]) != st.SIG[i]:
                        bad(f"[{key!r}] returned another dimension")
                    if real.index(key) != pos:
                        bad(f"index({key!r}) = {real.index(key)} != {pos}")
                    if real.size(key) != lens[pos]:
                        bad(f"size({key!r})")
                    if key not in real:
                        bad(f"{key!r} in set is False")
                if dim_sig(real[pos]) != st.SIG[i]:
                    bad(f"[{pos}] returned another dimension")
                if st.D[i] not in real:
                    bad("Dimension in set is False")
            for i in range(len(st.D)):
                if st.LET[i] not in letters:
                    if st.LET[i] in real or st.D[i] in real:
                        bad(f"{st.LET[i]!r} reported as member")
                if st.NAME[i] not in names and st.NAME[i] in real:
                    bad(f"{st.NAME[i]!r} reported as member")
        except Violation:
            raise
        except Exception as e:  # noqa
            bad(f"a lookup on a member raised {exc_class(e)}")

    # ------------------------------------------------------------------ minimisation helpers
    def shrink(self, run):
        # drop probes, one at a time
        for k, op in enumerate(run["ops"]):
            if op.get("probe"):
                ops = [dict(o) for o in run["ops"]]
                ops[k]["probe"] = None
                yield {"world": run["world"], "ops": ops}

    # ------------------------------------------------------------------ evidence texts
    def rule(self, prop):
        return ("table: every ordered pair of the 65 ordered sub-lists of a 4-dimension alphabet x 8 binary operators "
                "(+ bare-Dimension right operands) and every ordered selection by letters/names/mixed of every sub-list, "
                "each executed as a mini-run; histories: seeded op sequences (5-30 ops) over a per-run random universe of 3-6 "
                "dimensions plus 1-2 same-letter twins, swarm-enabled op kinds. distinct = distinct sequence of "
                "(op, function, inplace, outcome, result size); non-trivial = at least one in-place mutation (direct or as "
                "independence probe on a fresh result) happened and at least one oracle clause was evaluated")

    def components(self, prop):
        return {"real": ["flodym.dimensions", "flodym.flodym_arrays (constructors only)", "pydantic"],
                "stubbed": ["the caller: generated operation sequences"], "not_run": ["I/O, plotting"]}

    def assumptions(self, prop):
        return ["the ordered-list model in engines/dimsim.py states the property correctly",
                "dimensions are compared by (letter, name, items, dtype), not by object identity",
                "replace() with a new dimension of the same letter as the replaced one, expand_by with internal duplicates, "
                "unknown keys and insert positions outside -len..len are outside the property and not generated (negative positions in range follow Python's list convention)"]

    def extra_coverage(self, prop, tier, results):
        n_table = sum(1 for r in results if r["task"]["kind"] == "table")
        n_single = sum(1 for r in results if r["task"]["kind"] == "single")
        return {"exhaustive_subspace": {"what": "pair table 65x65 ordered sub-lists of 4 dims, 8 operators; all ordered selections of all 65 sub-lists",
                                        "pairs_done": n_table, "pairs_total": 4225, "singles_done": n_single, "singles_total": 65,
                                        "complete": n_table == 4225 and n_single == 65},
                "history_runs": sum(1 for r in results if r["task"]["kind"] == "hist")}


ENGINE = DimSim()
