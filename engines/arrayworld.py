"""Shared world generation, key construction and the by-label reference model used by arraysim."""

import itertools

import numpy as np

from flodym import Dimension, DimensionSet, FlodymArray

NAMES = {"a": "Alpha", "b": "Beta", "c": "Gamma", "d": "Delta", "e": "Epsilon", "t": "Time"}


def gen_world(rng, min_dims=3, max_dims=5, same_name=False):
    n = rng.randint(min_dims, max_dims)
    letters = ["t"] + rng.sample("abcde", n - 1)
    eq = rng.chance(0.5)
    L = rng.randint(2, 4)
    dims = []
    for k, letter in enumerate(letters):
        if letter == "t":
            ln = L if (eq and L >= 3 and rng.chance(0.7)) else rng.randint(3, 5)
            items = [2000 + 5 * j for j in range(ln)] if rng.chance(0.5) else [2000 + j * j + j for j in range(ln)]
            dt = "int"
        else:
            ln = L if (eq and rng.chance(0.7)) else rng.randint(1, 4)
            kind = rng.choice(["str", "int", "untyped"])
            if kind == "int":
                items = [100 * (k + 1) + j for j in range(ln)]
                dt = "int"
            else:
                items = [f"{letter}{j}x" for j in range(ln)]
                dt = "str" if kind == "str" else None
        dims.append({"letter": letter, "name": NAMES[letter], "items": items, "dtype": dt, "of": None})
    strdims = [i for i, d in enumerate(dims) if d["dtype"] != "int" and len(d["items"]) >= 2]
    if len(strdims) >= 2 and rng.chance(0.2):
        i, j = rng.sample(strdims, 2)
        dims[i]["items"][-1] = "dup"
        dims[j]["items"][0] = "dup"
    # item order is not always ascending (labels, not positions, identify entries); time stays ascending for the stock models
    for d in dims:
        if d["letter"] != "t" and len(d["items"]) >= 2 and rng.chance(0.35):
            d["items"] = rng.shuffled(d["items"])
        elif d["letter"] == "t" and rng.chance(0.12):
            d["items"] = rng.shuffled(d["items"])  # nothing in arraysim judges stock numbers; labels stay labels
    nbase = len(dims)
    for i in range(nbase):
        d = dims[i]
        if d["letter"] != "t" and len(d["items"]) >= 2 and rng.chance(0.85):
            k = rng.randint(1, len(d["items"]))
            sub = rng.sample(d["items"], k)
            if rng.chance(0.5):
                sub = [x for x in d["items"] if x in sub]
            dims.append({"letter": d["letter"].upper(), "name": d["name"] + "Sub", "items": sub, "dtype": d["dtype"], "of": i})
    # F1: a "foreign twin": same letter as a universe dimension, other name and item count (an array from another model)
    if rng.chance(0.3):
        i = rng.randint(1, nbase - 1) if nbase > 1 else 0
        d = dims[i]
        k = rng.choice([1, 1, len(d["items"]) + 1])
        items = (d["items"] + ["extra_item" if d["dtype"] != "int" else 99999])[:k] if k > len(d["items"]) else d["items"][:k]
        if items != d["items"]:
            dims.append({"letter": d["letter"], "name": d["name"] + "Twin", "items": items, "dtype": d["dtype"], "of": None, "twin": True})
    if same_name and nbase > 1:
        # two dimensions of one name under different letters (origin and destination "Region" of a trade matrix): legal, and
        # only the letter tells them apart
        i = rng.randint(1, nbase - 1)
        letter = rng.choice("fgh")
        dims.append({"letter": letter, "name": dims[i]["name"], "items": [f"{letter}{j}x" for j in range(rng.randint(1, 3))], "dtype": "str", "of": None})
    return {"dims": dims}


def make_dim(spec):
    dt = {"int": int, "str": str, None: None}[spec["dtype"]]
    return Dimension(name=spec["name"], letter=spec["letter"], items=list(spec["items"]), dtype=dt)


def int_values(vseed, shape, lo=-4, hi=9):
    rs = np.random.RandomState(vseed % (2 ** 31))
    return rs.randint(lo, hi + 1, size=shape).astype(np.float64)


def wrong_shapes(shape):
    """every F1 shape variant that differs from `shape`"""
    shape = tuple(shape)
    out = {}
    if len(shape) == 0:
        out["one"] = (1,)
        out["two"] = (2,)
        return out
    rev = shape[::-1]
    if rev != shape:
        out["transposed"] = rev
    out["lead1"] = (1,) + shape
    out["trail1"] = shape + (1,)
    if len(shape) >= 2:
        out["smaller"] = shape[1:]
        out["flat"] = (int(np.prod(shape)),)
    out["zerod"] = ()
    ones = tuple(1 for _ in shape)
    if ones != shape:
        out["ones"] = ones
    out["bigger"] = (shape[0] + 1,) + shape[1:]
    if len(shape) >= 2 and shape[-1] != 1:
        out["keepdim1"] = shape[:-1] + (1,)
    return out


class KeyInfo:
    """result of resolving a key spec against a target array"""

    def __init__(self):
        self.key = None          # the python object handed to []
        self.sel = None          # per target dim: None | ('item', idx) | ('subset', [idx..], Dimension) | ('list', [idx..])
        self.wellformed = True   # False: unknown item, ambiguous bare item, numpy slice, non-subset Dimension
        self.f1 = None
        self.form = None
        self.has_list = False
        self.has_subset = False


def build_key(spec, arr, D, OF):
    """spec: {'form':..., 'sel': [[pos, kind, payload], ...], 'f1': None|...}.
    D: world Dimension objects, OF: letter of the parent dimension for subset dimensions (else None).  Resolved against the *current* dims of arr."""
    info = KeyInfo()
    info.form = spec["form"]
    dims = list(arr.dims)
    nd = len(dims)
    info.sel = [None] * nd
    if spec["form"] == "ellipsis" or nd == 0:
        info.key = Ellipsis
        info.form = "ellipsis"
        return info
    chosen = {}
    for pos, kind, payload in spec["sel"]:
        p = pos % nd
        if p in chosen:
            continue
        d = dims[p]
        n = len(d.items)
        if kind == "subset":
            cands = [i for i, w in enumerate(D) if OF[i] == d.letter
                     and set(w.items).issubset(set(d.items))]
            have = [x.letter for x in dims]
            cands = [i for i in cands if D[i].letter not in have]  # the subset's letter must be new to the target
            if not cands:
                kind, payload = "item", (payload if isinstance(payload, int) else 0)
            else:
                w = D[cands[payload % len(cands)] if isinstance(payload, int) else cands[0]]
                chosen[p] = ("subset", [d.items.index(x) for x in w.items], w)
                continue
        if kind == "list":
            idxs = []
            for x in payload:
                if x % n not in idxs:
                    idxs.append(x % n)
            if not idxs:
                idxs = [0]
            chosen[p] = ("list", idxs)
            continue
        chosen[p] = ("item", payload % n)
    if not chosen:
        info.key = Ellipsis
        info.form = "ellipsis"
        return info
    form = spec["form"]
    only_items = all(v[0] == "item" for v in chosen.values())
    if form == "tuple" and all(v[0] in ("item", "list") for v in chosen.values()) and not only_items:
        # several items of one dimension in a comma key; the items of different dimensions may be interleaved
        flat = []
        for p_, v in sorted(chosen.items()):
            idxs = [v[1]] if v[0] == "item" else list(v[1])
            if v[0] == "list" and len(idxs) == 1:
                chosen[p_] = ("item", idxs[0])
            flat.append([dims[p_].items[i] for i in idxs])
        out, k_ = [], 0
        while any(flat):
            if flat[k_ % len(flat)]:
                out.append(flat[k_ % len(flat)].pop(0))
            k_ += 1
        amb = any(sum(1 for d in dims if it in d.items) > 1 for it in out)
        for p_, v in chosen.items():
            info.sel[p_] = v
            if v[0] == "list":
                info.has_list = True
        info.form = "tuple"
        info.key = tuple(out)
        if amb:
            info.wellformed = False
            info.f1 = "ambiguous_item"
        return info
    if form in ("bare", "tuple") and not only_items:
        form = "dict_letter"
    if form == "bare" and len(chosen) != 1:
        form = "tuple"
    info.form = form
    for p, v in chosen.items():
        info.sel[p] = v
        if v[0] == "list":
            info.has_list = True
        if v[0] == "subset":
            info.has_subset = True
    if form in ("bare", "tuple"):
        items = [dims[p].items[v[1]] for p, v in sorted(chosen.items())]
        # ambiguity: the item occurs in more than one dimension of the target
        for it in items:
            if sum(1 for d in dims if it in d.items) > 1:
                info.wellformed = False
                info.f1 = "ambiguous_item"
        info.key = items[0] if form == "bare" else tuple(items)
    else:
        key = {}
        for n_, (p, v) in enumerate(sorted(chosen.items())):
            d = dims[p]
            if form == "dict_letter" or sum(1 for x in dims if x.name == d.name) > 1:
                k = d.letter  # a name shared by two dimensions of the target does not address either of them
            elif form == "dict_name":
                k = d.name
            else:
                k = d.letter if n_ % 2 == 0 else d.name
            if v[0] == "item":
                key[k] = d.items[v[1]]
                if spec.get("np_items") and isinstance(key[k], int):
                    key[k] = np.int64(key[k])  # an item taken from a numpy array or a pandas index
            elif v[0] == "subset":
                key[k] = v[2]
            else:
                lst = [d.items[i] for i in v[1]]
                lf = spec.get("list_form", "list")
                if lf == "iterator":
                    key[k] = iter(lst)  # a generator / filter / map object: any Iterable is accepted as a list of items
                else:
                    key[k] = lst if lf == "list" else (tuple(lst) if lf == "tuple" else np.array(lst, dtype=object if any(isinstance(x, str) for x in lst) else None))
        info.key = key
    f1 = spec.get("f1")
    if f1 == "unknown_item":
        info.wellformed = False
        info.f1 = f1
        if isinstance(info.key, dict):
            k0 = sorted(info.key, key=str)[0]
            info.key = dict(info.key)
            info.key[k0] = "no_such_item"
        else:
            info.key = "no_such_item"
    elif f1 == "slice_key":
        info.wellformed = False
        info.f1 = f1
        info.key = slice(0, 1)
    elif f1 == "not_subset":
        p0 = sorted(chosen)[0]
        d = dims[p0]
        bad = Dimension(name=d.name + "Bad", letter="Z", items=list(d.items[:1]) + ["not_in_dim"])
        info.wellformed = False
        info.f1 = f1
        info.key = {d.letter: bad}
    return info


# ----------------------------------------------------------------------------- by-label reference
def region_indices(shape, sel):
    """list of index tuples of the addressed region, in target coordinates"""
    axes = []
    for n, s in zip(shape, sel):
        if s is None:
            axes.append(range(n))
        elif s[0] == "item":
            axes.append([s[1]])
        else:
            axes.append(list(s[1]))
    return list(itertools.product(*axes))


def region_letters(dims, sel):
    """[(letter, items)] of the region, in the target's order; None if a list selection is present"""
    out = []
    for d, s in zip(dims, sel):
        if s is None:
            out.append((d[0], list(d[2])))
        elif s[0] == "item":
            continue
        elif s[0] == "subset":
            w = s[2]
            out.append((w.letter, list(w.items)))
        else:
            out.append((d[0], [d[2][i] for i in s[1]]))
    return out


def marginal_by_label(src_dims, src_values, letters):
    """dict: tuple of items (in the order of `letters`) -> python-float sum of src over its other dims.
    src_dims: [(letter, name, items, dtype)], explicit loop, no einsum."""
    pos = []
    src_letters = [d[0] for d in src_dims]
    for l in letters:
        pos.append(src_letters.index(l))
    out = {}
    shape = src_values.shape
    for idx in itertools.product(*[range(n) for n in shape]):
        lab = tuple(src_dims[p][2][idx[p]] for p in pos)
        out[lab] = out.get(lab, 0.0) + float(src_values[idx])
    return out
