"""arraysim execution: one shared machine for C05 / C13 / C15.  An op record is executed against
the pool; `Info` collects the facts the oracles need."""

import warnings

import numpy as np
import pandas as pd

from simkit.kernel import (Crash, EventLog, INTERRUPTS, Violation, detach_exc, dims_sig, dim_sig, exc_class, same_as_snap,
                           shape_invariant_ok, snap_array, values_equal, vdig)
from simkit.engine import jhash
from engines.arrayworld import (build_key, int_values, make_dim, marginal_by_label, region_indices, region_letters,
                                wrong_shapes)

import flodym
from flodym import (Dimension, DimensionSet, FlodymArray, Parameter, StockArray, SimpleFlowDrivenStock, InflowDrivenDSM,
                    StockDrivenDSM)
from flodym.flodym_array_helper import flodym_array_stack
from flodym.lifetime_models import FixedLifetime, NormalLifetime

POOL_CAP = 8


class Info:
    def __init__(self):
        self.outcome = "skip"
        self.exc = None
        self.results = []        # new arrays returned by the op
        self.inplace = False     # explicitly in-place operation
        self.target = None       # the array an in-place op mutates
        self.inputs = []         # array objects that are inputs
        self.raw = []            # (label, obj, snapshot, comparer)
        self.must_raise = None   # clause id if the property demands an exception
        self.indep = False       # results fall under the independence clause (N2)
        self.dims_passed = []    # DimensionSet objects handed to a constructor
        self.new_arrays_from_ctor = False
        self.c05 = None
        self.indep_raw = []      # raw ndarrays the result must be independent of (e.g. an array fill value)
        self.fired = None
        self.kind = ""
        self.stock = None
        self.extra_snaps = []    # (array, snapshot) of arrays outside the pool that the step works on


class State:
    def __init__(self, world):
        self.world = world
        self.D = [make_dim(s) for s in world["dims"]]
        self.OF = [None if s["of"] is None else world["dims"][s["of"]]["letter"] for s in world["dims"]]
        self.LET = [s["letter"] for s in world["dims"]]
        self.pool = []
        self.stocks = []
        self.nres = 0
        self.log = EventLog()
        self.clauses = {}
        self.probes = {}
        self.faults = {}
        self.sig = []
        self.states = set()
        self.mutations = 0
        self.line_counts = {}

    def cnt(self, c, n=1):
        self.clauses[c] = self.clauses.get(c, 0) + n

    def probe(self, c):
        self.probes[c] = self.probes.get(c, 0) + 1

    def fault(self, c):
        self.faults[c] = self.faults.get(c, 0) + 1

    def slot(self, k):
        if not self.pool:
            return None
        return self.pool[k % len(self.pool)]

    def store(self, arr):
        if len(self.pool) < POOL_CAP:
            self.pool.append(arr)
        else:
            self.pool[self.nres % POOL_CAP] = arr
        self.nres += 1

    def reachable(self):
        out = list(self.pool)
        for s in self.stocks:
            for a in (s.stock, s.inflow, s.outflow):
                if all(a is not b for b in out):
                    out.append(a)
        return out

    def dimset(self, idxs):
        return DimensionSet(dim_list=[self.D[i % len(self.D)] for i in self._uniq(idxs)])

    def _uniq(self, idxs):
        seen, out = set(), []
        for i in idxs:
            i = i % len(self.D)
            if self.LET[i] not in seen:
                seen.add(self.LET[i])
                out.append(i)
        return out


# ----------------------------------------------------------------------------- calling the code under test
def call(st, op, thunk, info):
    f = op.get("fault")
    with np.errstate(all="ignore"), warnings.catch_warnings():
        warnings.simplefilter("ignore")
        if f and f.get("kind") == "interrupt":
            c = Crash(at=f.get("at"), flavour=f.get("flavour", "mem"))
            try:
                with c:
                    r = thunk()
                info.outcome = "ret"
            except INTERRUPTS:
                info.outcome = "interrupt"
                info.fired = c.fired
                st.fault("interrupt_" + f.get("flavour", "mem"))
                r = None
            except Exception as e:  # noqa
                info.outcome = "raise"
                info.exc = e
                detach_exc(e)
                r = None
            st.line_counts[op.get("_n", -1)] = c.count
            return r
        try:
            r = thunk()
            info.outcome = "ret"
            return r
        except INTERRUPTS:
            raise
        except Exception as e:  # noqa
            info.outcome = "raise"
            info.exc = e
            detach_exc(e)
            return None


def _df_equal(a, b):
    try:
        return (a.equals(b) and list(a.columns) == list(b.columns) and a.index.equals(b.index)
                and list(a.dtypes) == list(b.dtypes) and list(a.index.names) == list(b.index.names))
    except Exception:  # noqa
        return False


# ----------------------------------------------------------------------------- op handlers
def _layout(nd, mem, st):
    """the caller's ndarray need not be a fresh C-contiguous array"""
    if mem == "fortran" and nd.ndim >= 2:
        st.probe("ndarray_fortran_ordered")
        return np.asfortranarray(nd)
    if mem == "reversed" and nd.ndim >= 1:
        st.probe("ndarray_negative_strides")
        return nd[::-1].copy()[::-1]
    if mem == "strided" and nd.ndim >= 1:
        st.probe("ndarray_strided_view")
        big = np.repeat(nd, 2, axis=0)
        return big[::2]
    return nd


def op_mk(st, op, info):
    via = op["via"]
    info.kind = "mk:" + via
    sf = op.get("shape_fault")
    if via in ("copy", "full_like"):
        src = st.slot(op.get("src", 0))
        if src is None:
            return
        info.inputs = [src]
        info.indep = True
        if via == "copy":
            r = call(st, op, lambda: src.copy(), info)
        elif op.get("fill_nd") and isinstance(src.values, np.ndarray):
            # an ndarray fill value of the template's full shape (and dtype)
            fill = int_values(op.get("vseed", 0), src.values.shape).astype(src.values.dtype if src.values.dtype.kind in "fi" else np.float64)
            info.raw.append(("ndarray", fill, fill.copy(), lambda s_, o: values_equal(s_, o)))
            info.indep_raw = [fill]
            r = call(st, op, lambda: FlodymArray.full_like(src, fill), info)
        else:
            r = call(st, op, lambda: FlodymArray.full_like(src, float(op.get("num", 2))), info)
        if info.outcome == "ret":
            info.results = [r]
        return
    if via == "scalar":
        r = call(st, op, lambda: FlodymArray.scalar(float(op.get("num", 3))), info)
        if info.outcome == "ret":
            info.results = [r]
        return
    ds = st.dimset(op["dims"])
    shape = tuple(len(d.items) for d in ds)
    info.dims_passed = [ds]
    info.raw.append(("dimset", ds, dims_sig(ds), lambda s, o: dims_sig(o) == s))
    info.new_arrays_from_ctor = True
    if via == "ctor_none":
        r = call(st, op, lambda: FlodymArray(dims=ds), info)
    elif via in ("ctor_int", "ctor_subclass"):
        nd = int_values(op.get("vseed", 0), shape)
        if via == "ctor_int":
            nd = nd.astype(np.int64)
            st.probe("integer_typed_array")
        klass = FlodymArray if via == "ctor_int" else [Parameter, StockArray][op.get("vseed", 0) % 2]
        info.raw.append(("ndarray", nd, nd.copy(), lambda s, o: values_equal(s, o)))
        r = call(st, op, lambda: klass(dims=ds, values=nd, name="mk"), info)
    elif via == "ctor_nd":
        shp = shape
        if sf:
            ws = wrong_shapes(shape)
            if sf in ws:
                shp = ws[sf]
                info.must_raise = "wrong-shape-rejected"
                st.fault("wrong_shape_" + sf)
        nd = _layout(int_values(op.get("vseed", 0), shp), op.get("mem"), st)
        info.raw.append(("ndarray", nd, nd.copy(), lambda s, o: values_equal(s, o)))
        r = call(st, op, lambda: FlodymArray(dims=ds, values=nd, name="mk"), info)
    elif via == "ctor_num":
        if len(shape) > 0:
            info.must_raise = "wrong-shape-rejected"
            st.fault("number_for_nd")
        r = call(st, op, lambda: FlodymArray(dims=ds, values=float(op.get("num", 1))), info)
    elif via == "superset":
        letters = tuple(d.letter for d in ds)
        k = op.get("take", len(letters))
        perm = list(letters)
        rot = op.get("rot", 0) % max(1, len(perm))
        perm = perm[rot:] + perm[:rot]
        take = tuple(perm[:max(0, min(len(perm), k))])
        if op.get("dup") and take:
            # F1: one dimension asked for twice (by its letter again, or by its name): whatever comes back must still be over
            # pairwise distinct letters - refusing is fine
            take = take + ((take[0],) if op["dup"] == "letter" else (ds[take[0]].name,))
            st.fault("dimension_requested_twice")
        r = call(st, op, lambda: FlodymArray.from_dims_superset(ds, dim_letters=take), info)
    elif via == "full":
        if op.get("dup") and len(ds.dim_list) > 0:
            letters = tuple(d.letter for d in ds)
            key = letters + ((letters[0],) if op["dup"] == "letter" else (ds[letters[0]].name,))
            st.fault("dimension_requested_twice")
            r = call(st, op, lambda: FlodymArray.full(ds[key], float(op.get("num", 2))), info)
        else:
            r = call(st, op, lambda: FlodymArray.full(ds, float(op.get("num", 2))), info)
    elif via == "full_nd":
        # an array fill value: broadcastable shapes are documented as allowed, others must be refused
        shp = shape
        if sf == "bigger" and len(shape) > 0:
            shp = wrong_shapes(shape)["bigger"]
            info.must_raise = "wrong-shape-rejected"
            st.fault("wrong_shape_fill")
        nd = int_values(op.get("vseed", 0), shp)
        info.raw.append(("ndarray", nd, nd.copy(), lambda s, o: values_equal(s, o)))
        r = call(st, op, lambda: FlodymArray.full(ds, nd), info)
    else:
        raise AssertionError(via)
    if info.outcome == "ret":
        info.results = [r]


ARITH_BIN = {
    "add": lambda x, y: x + y, "sub": lambda x, y: x - y, "mul": lambda x, y: x * y, "div": lambda x, y: x / y,
    "pow": lambda x, y: x ** y, "min": lambda x, y: x.minimum(y), "max": lambda x, y: x.maximum(y),
    "radd": lambda x, y: y + x, "rsub": lambda x, y: y - x, "rmul": lambda x, y: y * x, "rdiv": lambda x, y: y / x,
}
ARITH_UN = {"neg": lambda x: -x, "abs": lambda x: abs(x), "absm": lambda x: x.abs(), "sign": lambda x: x.sign(),
            "absm_kw": lambda x: x.abs(inplace=False), "sign_pos": lambda x: x.sign(False)}


def op_arith(st, op, info):
    f = op["f"]
    info.kind = "arith:" + f
    x = st.slot(op["l"])
    if x is None:
        return
    info.indep = True
    if f in ARITH_UN:
        info.inputs = [x]
        r = call(st, op, lambda: ARITH_UN[f](x), info)
    else:
        r_ = op["r"]
        if isinstance(r_, dict):
            y = _number(r_["num"])
            info.inputs = [x]
        else:
            if f.startswith("r"):
                y = 2.0
                info.inputs = [x]
            else:
                y = st.slot(r_)
                info.inputs = [x, y]
                if y is x:
                    st.probe("x_op_x")
        r = call(st, op, lambda: ARITH_BIN[f](x, y), info)
    if info.outcome == "ret":
        info.results = [r]


def op_reduce(st, op, info):
    f = op["f"]
    info.kind = "reduce:" + f
    x = st.slot(op["s"])
    if x is None:
        return
    info.inputs = [x]
    dims = list(x.dims)
    sel = []
    for p in op.get("dims", []):
        if dims and dims[p % len(dims)] not in sel:
            sel.append(dims[p % len(dims)])
    form = op.get("form", "letter")

    def keyf(d):
        if form == "name" and sum(1 for x in dims if x.name == d.name) > 1:
            return d.letter  # a name shared by two dimensions of the array does not address either of them
        return d.letter if form == "letter" else (d.name if form == "name" else d)

    keys = tuple(keyf(d) for d in sel)
    style = (op.get("s", 0) + op.get("rot", 0)) % 3   # the ways a caller writes it: positional, by keyword, default left out
    if f == "sum_to":
        if not keys and style == 0:
            r = call(st, op, lambda: x.sum_to(), info)
        else:
            r = call(st, op, (lambda: x.sum_to(result_dims=keys)) if style == 1 else (lambda: x.sum_to(keys)), info)
    elif f == "sum_over":
        if not keys and style == 0:
            r = call(st, op, lambda: x.sum_over(), info)
        else:
            r = call(st, op, (lambda: x.sum_over(sum_over_dims=keys)) if style == 1 else (lambda: x.sum_over(keys)), info)
    elif f == "shares":
        r = call(st, op, lambda: x.get_shares_over(tuple(d.letter for d in sel)), info)
    elif f == "cumsum":
        if not dims:
            return
        letter = dims[op.get("dims", [0])[0] % len(dims)].letter if op.get("dims") else dims[0].letter
        r = call(st, op, (lambda: x.cumsum(dim_letter=letter, inplace=False)) if style == 1 else ((lambda: x.cumsum(letter, False)) if style == 2 else (lambda: x.cumsum(letter))), info)
    elif f == "cast_to":
        extra = st._uniq(op.get("extra", []))
        have = [d.letter for d in dims]
        target = list(dims) + [st.D[i] for i in extra if st.LET[i] not in have]
        rot = op.get("rot", 0) % max(1, len(target))
        target = target[rot:] + target[:rot]
        if op.get("f1") == "missing_dim" and dims:
            target = [d for d in target if d.letter != dims[0].letter]
            st.fault("cast_missing_dim")
        tds = DimensionSet(dim_list=target)
        info.dims_passed = [tds]
        info.raw.append(("dimset", tds, dims_sig(tds), lambda s, o: dims_sig(o) == s))
        info.indep = True
        info.new_arrays_from_ctor = True
        r = call(st, op, lambda: x.cast_to(tds), info)
    elif f == "apply":
        if style == 1:
            r = call(st, op, lambda: x.apply(func=np.negative, kwargs={}, inplace=False), info)
        elif style == 2:
            r = call(st, op, lambda: x.apply(np.clip, {"a_min": 0.0, "a_max": 5.0}), info)
        else:
            r = call(st, op, lambda: x.apply(np.negative), info)
    else:
        raise AssertionError(f)
    if info.outcome == "ret":
        info.results = [r]


def _same_key_object(st, arr, ki):
    """a caller that addresses one array in a loop keeps one key dict and changes its entries: the key handed to [] is then the
    very object of the previous access, with other content"""
    if not isinstance(ki.key, dict):
        return
    if not hasattr(st, "keyobjs"):
        st.keyobjs = []
    for a, obj in st.keyobjs:
        if a is arr:
            if st.cur % 3:
                obj.clear()
                obj.update(ki.key)
                ki.key = obj
                st.probe("key_dict_object_reused_with_other_content")
            return
    st.keyobjs.append((arr, ki.key))
    if len(st.keyobjs) > 16:
        st.keyobjs.pop(0)


def op_slice(st, op, info):
    info.kind = "slice"
    x = st.slot(op["s"])
    if x is None:
        return
    ki = build_key(op["key"], x, st.D, st.OF)
    _same_key_object(st, x, ki)
    info.kind = "slice:" + ki.form + ("+subset" if ki.has_subset else "") + ("+list" if ki.has_list else "")
    info.inputs = [x]
    info.indep = True
    if not ki.wellformed:
        st.fault("illformed_key_" + ki.f1)
    if ki.has_list:
        st.fault("list_key_on_read")
    r = call(st, op, lambda: x[ki.key], info)
    if info.outcome == "ret":
        info.results = [r]
        if ki.has_subset:
            st.probe("slice_subset_copy")
        else:
            st.probe("slice_basic_index")
        if r.values.ndim == 0:
            st.probe("zero_d_result")


def _make_rhs(st, spec):
    """returns (rhs object, kind, source array or None)"""
    if "num" in spec:
        return _number(spec["num"]), "num", None
    if "ref" in spec:
        src = st.slot(spec["ref"])
        if src is None:
            return 1.0, "num", None
        if spec.get("slice") is not None:
            ki = build_key(spec["slice"], src, st.D, st.OF)
            if ki.wellformed and not ki.has_list:
                try:
                    with np.errstate(all="ignore"):
                        return src[ki.key], "arr", src
                except Exception:  # noqa
                    pass
        return src, "arr", src
    if "fresh" in spec:
        ds = st.dimset(spec["fresh"]["dims"])
        shape = tuple(len(d.items) for d in ds)
        return FlodymArray(dims=ds, values=int_values(spec["fresh"].get("vseed", 0), shape)), "arr", None
    raise AssertionError(spec)


def op_setitem(st, op, info):
    t = st.slot(op["t"])
    if t is None:
        return
    ki = build_key(op["key"], t, st.D, st.OF)
    _same_key_object(st, t, ki)
    info.kind = "setitem:" + ki.form
    info.inplace = True
    info.target = t
    spec = op["rhs"]
    c05 = {"ki": ki, "tsnap": snap_array(t), "rhs_kind": None}
    if "nd" in spec:
        # an ndarray right-hand side
        tshape = t.values.shape if isinstance(t.values, np.ndarray) else ()
        if ki.form == "ellipsis":
            shp = tshape
            sf = spec["nd"].get("shape_fault")
            ws = wrong_shapes(tshape)
            if sf in ws:
                shp = ws[sf]
                info.must_raise = "wrong-shape-rejected"
                st.fault("wrong_shape_" + sf)
                c05["nd_wrong"] = True
        else:
            # keyed: give it the numpy shape of the addressed block so that the call is plausible
            try:
                from flodym.flodym_arrays import SubArrayHandler  # only to learn the block shape
                shp = t.values[SubArrayHandler(t, ki.key).ids].shape if ki.wellformed else tshape
            except Exception:  # noqa
                shp = tshape
        nd = int_values(spec["nd"].get("vseed", 0), shp)
        dt = spec["nd"].get("dtype", "float64")
        if spec["nd"].get("frac") and dt == "float64":
            nd = np.asarray(nd + 0.5)  # not integer valued: would not survive a cast into an integer typed buffer
            st.probe("assigned_ndarray_fractional")
        if dt != "float64":
            nd = (nd > 2) if dt == "bool" else nd.astype(dt)
            st.probe("assigned_ndarray_dtype_" + dt)
        rhs, kind = nd, "nd"
        c05["nd"] = nd
        c05["nd_snap"] = nd.copy()
        info.raw.append(("ndarray", nd, nd.copy(), lambda s, o: values_equal(s, o)))
    else:
        rhs, kind, src = _make_rhs(st, spec)
        if kind == "arr":
            info.inputs = [rhs] if src is None else [src]
            c05["rhs_snap"] = snap_array(rhs)
            if isinstance(rhs.values, np.ndarray) and isinstance(t.values, np.ndarray) and np.shares_memory(rhs.values, t.values):
                st.probe("source_overlaps_target")
    c05["rhs_kind"] = kind
    c05["rhs"] = rhs
    info.c05 = c05
    if not ki.wellformed:
        st.fault("illformed_key_" + ki.f1)

    def thunk():
        t[ki.key] = rhs

    call(st, op, thunk, info)


def _number(n):
    """numbers reach flodym the way users write them: `a[...] = 0` (a Python int) as often as `a[...] = 2.0` - or as what numpy and
    the standard library hand back: `a[...] = counts.sum()` (np.int64), `np.float32(2)`, `Fraction(3)`"""
    from fractions import Fraction
    n = int(n)
    k = abs(n) % 8
    if k in (0, 2):
        return n
    if k == 1:
        return float(n) + 0.5   # not a whole number: would not survive an integer typed buffer
    if k == 3:
        return float(n)
    return [np.int64, np.float64, np.float32, Fraction][k - 4](n)


def op_set_values(st, op, info):
    t = st.slot(op["t"])
    if t is None:
        return
    info.kind = "set_values"
    info.inplace = True
    info.target = t
    tshape = t.values.shape if isinstance(t.values, np.ndarray) else ()
    if "num" in op:
        v = _number(op["num"])
        info.kind = "set_values:num"
    elif op.get("unconvertible") and isinstance(t.values, np.ndarray) and t.values.size >= 2:
        # F1: an ndarray of the right shape whose elements cannot all be converted to numbers (a column read as text with a "?"
        # in a late row).  Whether flodym stores or refuses it is left open; if it raises, the target must be what it was.
        # Runs on a private copy of the pooled array so that an accepted text array does not enter the pool.
        t2 = t.copy()
        info.target = t2
        info.extra_snaps = [(t2, snap_array(t2))]
        flat = [float(x) for x in int_values(op.get("vseed", 0), (t.values.size,))]
        pos = max(1, (2 * t.values.size) // 3)
        if op["unconvertible"] == "object":
            flat[pos] = "?"
            v = np.array(flat, dtype=object).reshape(t.values.shape)
        else:
            flat = [str(int(x)) for x in flat]
            flat[pos] = "?"
            v = np.array(flat).reshape(t.values.shape)
        st.fault("ndarray_with_unconvertible_element")
        info.kind = "set_values:unconvertible"
        if op.get("via_setitem"):
            def thunk():
                t2[...] = v
            call(st, op, thunk, info)
        else:
            call(st, op, lambda: t2.set_values(v), info)
        return
    else:
        shp = tshape
        sf = op.get("shape_fault")
        ws = wrong_shapes(tshape)
        if sf in ws:
            shp = ws[sf]
            info.must_raise = "wrong-shape-rejected"
            st.fault("wrong_shape_" + sf)
        v = _layout(int_values(op.get("vseed", 0), shp), op.get("mem"), st)
        info.raw.append(("ndarray", v, v.copy(), lambda s, o: values_equal(s, o)))
    call(st, op, lambda: t.set_values(v), info)


def op_inplace_unary(st, op, info):
    t = st.slot(op["t"])
    if t is None:
        return
    f = op["f"]
    info.kind = "inplace:" + f
    info.inplace = True
    info.target = t
    if f == "abs":
        call(st, op, (lambda: t.abs(True)) if op.get("dim", 0) % 2 else (lambda: t.abs(inplace=True)), info)
    elif f == "sign":
        call(st, op, (lambda: t.sign(True)) if op.get("dim", 0) % 2 else (lambda: t.sign(inplace=True)), info)
    else:
        dims = list(t.dims)
        if not dims:
            return
        letter = dims[op.get("dim", 0) % len(dims)].letter
        call(st, op, lambda: t.cumsum(letter, inplace=True), info)


def op_df(st, op, info):
    """to_df -> (optionally damaged) -> from_df / set_values_from_df"""
    x = st.slot(op["s"])
    if x is None:
        return
    mode = op["mode"]
    info.kind = "df:" + mode
    dims = list(x.dims)
    if not dims or len({d.name for d in dims}) != len(dims):
        return  # tables are headed by dimension names: two dimensions of one name have no table form
    info.inputs = [x]
    if mode == "to_df":
        kw = {"index": bool(op.get("index", True)), "sparse": bool(op.get("sparse", False))}
        if op.get("wide") is not None and len(dims) >= 2:
            kw["dim_to_columns"] = dims[op["wide"] % len(dims)].name
        call(st, op, lambda: x.to_df(**kw), info)
        return
    try:
        with np.errstate(all="ignore"):
            df = x.to_df(index=False)
    except Exception:  # noqa
        return
    dmg = op.get("damage")
    if dmg == "drop_row" and len(df) > 1:
        df = df.drop(df.index[op.get("row", 0) % len(df)]).reset_index(drop=True)
        st.fault("df_row_dropped")
    elif dmg == "dup_row" and len(df) > 0:
        df = pd.concat([df, df.iloc[[op.get("row", 0) % len(df)]]], ignore_index=True)
        st.fault("df_row_duplicated")
    elif dmg == "nan" and len(df) > 0:
        df = df.copy()
        df.loc[df.index[op.get("row", 0) % len(df)], "value"] = np.nan
        st.fault("df_value_blanked")
    sty = op.get("style") or {}
    if sty.get("wide") is not None and len(dims) >= 2 and not dmg:
        try:
            df = x.to_df(index=False, dim_to_columns=dims[sty["wide"] % len(dims)].name)
        except Exception:  # noqa
            pass
    if sty.get("letters"):
        df = df.rename(columns={d.name: d.letter for d in dims})
    if sty.get("omit_single"):
        drop = [c for d in dims if len(d.items) == 1 for c in (d.name, d.letter) if c in df.columns]
        if drop and len(drop) < len(dims):
            df = df.drop(columns=drop)
    if sty.get("intvals") and "value" in df.columns and bool(np.all(np.isfinite(df["value"]))) and bool(np.all(df["value"] == np.round(df["value"]))):
        df = df.astype({"value": "int64"})
    if sty.get("index") and not sty.get("letters") and sty.get("wide") is None:
        keep = [c for c in df.columns if c != "value"]
        if keep:
            df = df.set_index(keep)
    if op.get("shuffle"):
        order = list(np.random.RandomState(op.get("vseed", 0) % 2 ** 31).permutation(len(df)))
        df = df.iloc[order].reset_index(drop=True)
    snap = df.copy()
    info.raw.append(("dataframe", df, snap, _df_equal))
    if mode == "from_df":
        ds = x.dims
        info.dims_passed = [ds]
        info.new_arrays_from_ctor = True
        r = call(st, op, lambda: FlodymArray.from_df(dims=ds, df=df), info)
        if info.outcome == "ret":
            info.results = [r]
            _typed_by_import(st, r)
    else:
        t = st.slot(op.get("t", 0))
        if dims_sig(t.dims) != dims_sig(x.dims):
            t = x
        info.inplace = True
        info.target = t
        info.inputs = [x] if t is not x else []
        was_float = isinstance(t.values, np.ndarray) and t.values.dtype == np.float64
        call(st, op, lambda: t.set_values_from_df(df), info)
        if info.outcome == "ret" and was_float:
            _typed_by_import(st, t)


def _typed_by_import(st, arr):
    """the element type of an array that an import built (or refilled) is flodym's choice, not the caller's: if it is an integer or
    single-precision type, what later happens to fractional values assigned into it is not excused as 'the caller's integer array'"""
    if isinstance(arr, FlodymArray) and isinstance(arr.values, np.ndarray) and arr.values.dtype != np.float64:
        if not hasattr(st, "own_int"):
            st.own_int = []
        st.own_int.append(arr)
        st.probe("array_typed_by_the_import_not_float64")


def op_split_stack(st, op, info):
    x = st.slot(op["s"])
    if x is None:
        return
    dims = list(x.dims)
    if op["op"] == "split":
        info.kind = "split"
        if not dims:
            return
        info.inputs = [x]
        info.indep = True
        letter = dims[op.get("dim", 0) % len(dims)].letter
        r = call(st, op, lambda: x.split(letter), info)
        if info.outcome == "ret":
            info.results = list(r.values())[:3]
        return
    info.kind = "stack"
    have = [d.letter for d in dims]
    cands = [i for i in range(len(st.D)) if st.LET[i] not in have and st.LET[i].lower() not in have]
    if not cands:
        return
    newdim = st.D[cands[op.get("dim", 0) % len(cands)]]
    parts = [x] + [a for a in st.pool if a is not x and dims_sig(a.dims) == dims_sig(x.dims)]
    parts = (parts * len(newdim.items))[:len(newdim.items)]
    info.inputs = parts
    r = call(st, op, lambda: flodym_array_stack(parts, newdim), info)
    if info.outcome == "ret":
        info.results = [r]


def op_stock(st, op, info):
    """build a Stock / DSM from pooled arrays (C13 I3, C15 N1)"""
    info.kind = "stock:" + op["cls"]
    tidx = [i for i, l in enumerate(st.LET) if l == "t"]
    if not tidx:
        return
    others = [i for i in st._uniq(op.get("dims", [])) if st.LET[i] != "t"]
    order = [tidx[0]] + others
    f1 = op.get("f1")
    if f1 == "time_not_first" and others:
        order = others[:1] + [tidx[0]] + others[1:]
        info.must_raise = "stock-dims-rejected"
        st.fault("time_not_first")
    ds = DimensionSet(dim_list=[st.D[i] for i in order])
    shape = tuple(len(d.items) for d in ds)
    info.dims_passed = [ds]
    info.raw.append(("dimset", ds, dims_sig(ds), lambda s, o: dims_sig(o) == s))
    kw = {"dims": ds, "name": "stk"}
    given = []
    for role in ("stock", "inflow", "outflow"):
        how = op.get(role)
        if how is None:
            continue
        if how == "other_dims":
            cands = [i for i in range(len(st.D)) if st.LET[i] not in [st.LET[j] for j in order]]
            if not cands:
                continue
            wrong = DimensionSet(dim_list=[st.D[i] for i in order] + [st.D[cands[0]]])
            arr = StockArray(dims=wrong, values=int_values(op.get("vseed", 0), tuple(len(d.items) for d in wrong)))
            info.must_raise = "stock-dims-rejected"
            st.fault("stock_array_other_dims")
        elif how == "other_items" and len(order) >= 2:
            # same letters, same lengths, but other labels (another scenario's regions): accepted - and must stay as it is
            dl_ = list(ds)
            k_ = 1 + op.get("vseed", 0) % (len(dl_) - 1)
            d_ = dl_[k_]
            dl_[k_] = Dimension(name=d_.name + "Other", letter=d_.letter, items=[f"other{i}" for i in range(len(d_.items))], dtype=str)
            arr = StockArray(dims=DimensionSet(dim_list=dl_), values=int_values(op.get("vseed", 0), shape, 0, 9))
            st.probe("stock_array_same_shape_other_labels")
        elif how == "twin_dims" and len(order) >= 2:
            dl_ = list(ds)
            k_ = 1 + op.get("vseed", 0) % (len(dl_) - 1)
            dl_[k_] = _twin_of(dl_[k_], bool(op.get("vseed", 0) % 2), repeat=op.get("vseed", 0) % 3 == 0)
            tw = DimensionSet(dim_list=dl_)
            arr = StockArray(dims=tw, values=int_values(op.get("vseed", 0), tuple(len(d.items) for d in tw)))
            info.must_raise = "stock-dims-rejected"
            st.fault("stock_array_same_letters_other_items")
        elif how == "fewer_dims" and len(order) >= 2:
            fewer = DimensionSet(dim_list=[st.D[i] for i in order[:-1]])
            arr = StockArray(dims=fewer, values=int_values(op.get("vseed", 0), tuple(len(d.items) for d in fewer)))
            info.must_raise = "stock-dims-rejected"
            st.fault("stock_array_fewer_dims")
        else:
            arr = StockArray(dims=ds, values=int_values(op.get("vseed", 0) + len(given), shape, 0, 9))
        given.append(arr)
        info.raw.append(("stock array handed to the constructor", arr, snap_array(arr), lambda s_, o: same_as_snap(s_, o)))
        kw[role] = arr
    info.inputs = given
    cls = {"simple": SimpleFlowDrivenStock, "inflow": InflowDrivenDSM, "stockdriven": StockDrivenDSM}[op["cls"]]
    if op["cls"] == "stockdriven" and op.get("solver"):
        kw["solver"] = op["solver"]
    if op["cls"] != "simple":
        lt = op.get("lt", "class")
        if lt == "class":
            kw["lifetime_model"] = FixedLifetime
        elif lt == "instance":
            kw["lifetime_model"] = NormalLifetime(dims=ds, mean=3.0, std=1.0)
        elif lt == "instance_twin" and len(ds.dim_list) >= 2:
            # same letters as the stock, but one dimension of the model has another number of items
            dl_ = list(ds)
            k_ = 1 + op.get("vseed", 0) % (len(dl_) - 1)
            dl_[k_] = _twin_of(dl_[k_], True, repeat=op.get("vseed", 0) % 3 == 0)
            kw["lifetime_model"] = FixedLifetime(dims=DimensionSet(dim_list=dl_), mean=2.0)
            info.must_raise = info.must_raise or "stock-dims-rejected"
            st.fault("lifetime_model_same_letters_other_items")
        else:  # instance over other dims
            cands = [i for i in range(len(st.D)) if st.LET[i] not in [st.LET[j] for j in order]]
            lds = DimensionSet(dim_list=[st.D[tidx[0]]] + ([st.D[cands[0]]] if cands else []))
            if [d.letter for d in lds] != [d.letter for d in ds]:
                info.must_raise = info.must_raise or "stock-dims-rejected"
                st.fault("lifetime_model_other_dims")
            kw["lifetime_model"] = FixedLifetime(dims=lds, mean=2.0)
    r = call(st, op, lambda: cls(**kw), info)
    if info.outcome == "ret":
        info.stock = r


def _twin_of(d, more, repeat=False):
    """a dimension with the letter of `d` but another name and item count (an object from another model)"""
    items = list(d.items)
    if repeat:
        # the same labels, one of them twice (a duplicated row in a dimension file): equal item sets, another length
        return Dimension(name=d.name + "Foreign", letter=d.letter, items=items + items[:1], dtype=d.dtype)
    items = items + [(max(items) + 1000) if all(isinstance(x, int) for x in items) else "foreign_item"] if more or len(items) == 1 else items[:1]
    return Dimension(name=d.name + "Foreign", letter=d.letter, items=items, dtype=d.dtype)


def op_lifetime(st, op, info):
    """build a lifetime model / set its parameters from pooled arrays (C13: arrays over other dimensions are refused; C15: inputs untouched)"""
    from flodym.lifetime_models import WeibullLifetime, LogNormalLifetime
    info.kind = "lifetime:" + op["via"]
    tidx = [i for i, l in enumerate(st.LET) if l == "t"]
    if not tidx:
        return
    others = [i for i in st._uniq(op.get("dims", [])) if st.LET[i] != "t"]
    ds = DimensionSet(dim_list=[st.D[i] for i in [tidx[0]] + others])
    letters = [d.letter for d in ds]
    info.dims_passed = [ds]
    info.raw.append(("dimset", ds, dims_sig(ds), lambda s_, o: dims_sig(o) == s_))
    cls, names = {"fixed": (FixedLifetime, ["mean"]), "normal": (NormalLifetime, ["mean", "std"]),
                  "weibull": (WeibullLifetime, ["weibull_shape", "weibull_scale"]), "lognormal": (LogNormalLifetime, ["mean", "std"])}[op["cls"]]
    prms = {}
    for n, name in enumerate(names):
        how = op["prm"][n % len(op["prm"])]
        if how["how"] == "num":
            prms[name] = 2.0 + n
        elif how["how"] == "nd":
            # a raw ndarray: of the model's shape, or of another one (transposed / one axis longer / flat) that must be refused
            shp = tuple(len(d.items) for d in ds)
            ws = wrong_shapes(shp)
            sf_ = how.get("shape_fault")
            fits = True
            if sf_ in ws and ws[sf_] != shp:
                try:
                    fits = np.broadcast_shapes(ws[sf_], shp) == shp  # numbers that broadcast into the model's shape are accepted
                except ValueError:
                    fits = False
            if not fits:
                shp = ws[sf_]
                info.must_raise = "lifetime-prm-rejected"
                st.fault("lifetime_prm_ndarray_wrong_shape")
            else:
                st.probe("lifetime_prm_ndarray_full_shape")
            arr = int_values(how.get("vseed", 0), shp, 1, 6)
            info.raw.append(("ndarray", arr, arr.copy(), lambda s_, o: values_equal(s_, o)))
            prms[name] = arr
        elif how["how"] == "ref":
            a = st.slot(how["slot"])
            if a is None:
                prms[name] = 2.0
                continue
            prms[name] = a
            info.inputs.append(a)
            if any(l not in letters for l in a.dims.letters):
                info.must_raise = "lifetime-prm-rejected"
                st.fault("lifetime_prm_other_dims")
        elif how["how"] == "twin_same_letters" and len(ds.dim_list) >= 2:
            # exactly the model's letters in the model's order - but one dimension has another number of items
            k_ = 1 + how.get("pos", 0) % (len(ds.dim_list) - 1)
            dl_ = list(ds)
            dl_[k_] = _twin_of(dl_[k_], how.get("more", True))
            pd_ = DimensionSet(dim_list=dl_)
            arr = FlodymArray(dims=pd_, values=int_values(how.get("vseed", 0), tuple(len(d.items) for d in pd_), 1, 6))
            prms[name] = arr
            info.inputs.append(arr)
            info.must_raise = "lifetime-prm-rejected"
            st.fault("lifetime_prm_same_letters_other_items")
            continue
        else:
            pd_ = st.dimset(how.get("dims", []))
            arr = FlodymArray(dims=pd_, values=int_values(how.get("vseed", 0), tuple(len(d.items) for d in pd_), 1, 6))
            prms[name] = arr
            info.inputs.append(arr)
            if any(l not in letters for l in pd_.letters):
                info.must_raise = "lifetime-prm-rejected"
                st.fault("lifetime_prm_other_dims")
            elif any(len(d.items) != len(ds[d.letter].items) for d in pd_):
                info.must_raise = "lifetime-prm-rejected"
                st.fault("lifetime_prm_same_letters_other_items")
    if op["via"] == "ctor":
        call(st, op, lambda: cls(dims=ds, **prms), info)
    else:
        def thunk():
            m = cls(dims=ds)
            m.set_prms(**prms)
            return m
        call(st, op, thunk, info)


def op_stock_poison(st, op, info):
    """the user writes a NaN into the driver of the last label combination of a stock (earlier combinations stay fine)"""
    if not st.stocks:
        return
    stock = st.stocks[op.get("k", 0) % len(st.stocks)]
    if stock.stock.values.ndim < 2:
        return
    info.kind = "stock_poison"
    info.inplace = True
    info.target = stock.stock
    stock.stock.values[(slice(None),) + (-1,) * (stock.stock.values.ndim - 1)] = np.nan
    stock.inflow.values[(slice(None),) + (-1,) * (stock.inflow.values.ndim - 1)] = np.nan
    st.fault("nan_in_last_series_of_driver")
    info.outcome = "ret"


def op_stock_compute(st, op, info):
    """compute() on a stock built earlier in this history - with parameters unset / negative / fine (C13: a compute that raises changes nothing)"""
    if not st.stocks:
        return
    stock = st.stocks[op.get("k", 0) % len(st.stocks)]
    info.kind = "stock_compute:" + type(stock).__name__
    info.inplace = True
    info.target = stock.stock
    lt = getattr(stock, "lifetime_model", None)
    how = op.get("prms", "keep")
    if how == "nan_last_series":
        how = "good"
    if lt is not None and how != "keep":
        names = list(lt.prms)
        vals = {"mean": 3.0, "std": 1.0, "weibull_shape": 2.0, "weibull_scale": 3.0}
        kw = {n: (vals[n] if how != "bad" else -vals[n]) for n in names}
        if how == "bad":
            st.fault("negative_lifetime_parameter")
        if how == "singular_last":
            # per-label parameters: the last label combination gets a zero lifetime (singular survival table there)
            arr = np.full(stock.dims.shape, vals[names[0]])
            if arr.ndim >= 2:
                arr[(slice(None),) + (-1,) * (arr.ndim - 1)] = 0.0
            kw[names[0]] = arr
            st.fault("singular_parameters_in_last_series")
        try:
            lt.set_prms(**kw)
        except Exception:  # noqa
            pass
    call(st, op, lambda: stock.compute(), info)


def op_system(st, op, info):
    """build an MFASystem from pooled arrays (as flows / parameters) and export it (C15: building systems and exporting change no input)"""
    from flodym import MFASystem, Flow, make_processes
    from flodym.export.data_writer import convert_to_dict
    info.kind = "system:" + op.get("then", "build")
    base = [i for i, w in enumerate(st.world["dims"]) if w["of"] is None and not w.get("twin")]
    ds = DimensionSet(dim_list=[st.D[i] for i in base])
    ok = [a for a in st.pool if all(l in ds.letters and dims_sig(a.dims)[[d.letter for d in a.dims].index(l)] == dims_sig(ds)[list(ds.letters).index(l)]
                                    for l in a.dims.letters) and isinstance(a.values, np.ndarray)]
    if not ok:
        return
    procs = make_processes(["sysenv", "use", "waste"])
    names = ["sysenv", "use", "waste"]
    flows, params = {}, {}
    for n, a in enumerate(ok[:6]):
        info.inputs.append(a)
        if n % 2 == 0 or n >= 3:
            # every process gets several contributions (of differing dimensionality): 0: sysenv->use, 2: waste->sysenv, 3: sysenv->use,
            # 4: use->waste, 5: waste->sysenv
            f = Flow(dims=a.dims, values=a.values, name=f"f{n}", from_process=procs[names[n % 3]], to_process=procs[names[(n + 1) % 3]])
            flows[f.name] = f
        if n % 2 == 1:
            params[f"p{n}"] = Parameter(dims=a.dims, values=a.values, name=f"p{n}")
    if not flows:
        return
    info.dims_passed = [ds]
    info.raw.append(("dimset", ds, dims_sig(ds), lambda s_, o: dims_sig(o) == s_))
    then = op.get("then", "build")

    def build():
        return MFASystem(dims=ds, parameters=params, processes=procs, flows=flows, stocks={})

    def act(sys_):
        if then == "dict_numpy":
            convert_to_dict(sys_, type="numpy")
        elif then == "dict_pandas":
            convert_to_dict(sys_, type="pandas")
        elif then == "new_array":
            info.results = [sys_.get_new_array(dim_letters=tuple(ds.letters[:2]))]
        elif then in ("check", "check_twice"):
            for _ in range(2 if then == "check_twice" else 1):
                sys_.check_mass_balance(raise_error=False)
                sys_.check_flows()
        return sys_

    if then == "build" or st.cur % 2:
        call(st, op, lambda: act(build()), info)
    else:
        # the system exists already: what the checks / exports see are the system's own Flow and Parameter objects
        try:
            with np.errstate(all="ignore"), warnings.catch_warnings():
                warnings.simplefilter("ignore")
                sys_ = build()
        except INTERRUPTS:
            raise
        except Exception:  # noqa
            return
        for nm, f in list(sys_.flows.items()) + list(sys_.parameters.items()):
            info.raw.append((f"flow / parameter '{nm}' of the system", f, snap_array(f), lambda s_, o: same_as_snap(s_, o) ))
            names_ = (nm, f.name)
            info.raw.append((f"name of '{nm}'", f, f.name, lambda s_, o: o.name == s_))
        call(st, op, lambda: act(sys_), info)
    st.probe("system_built_from_pooled_arrays_" + info.outcome)
    if info.outcome != "ret":
        info.results = []


def op_stock_convert(st, op, info):
    """to_stock_type / stock_stack on stocks built earlier (C15: inputs untouched; C13: results keep the shape invariant)"""
    from flodym.stock_helper import stock_stack
    if not st.stocks:
        return
    stock = st.stocks[op.get("k", 0) % len(st.stocks)]
    info.inputs = [stock.stock, stock.inflow, stock.outflow]
    if op["how"] == "to_stock_type":
        info.kind = "stock_convert:to_stock_type"
        target = {"simple": SimpleFlowDrivenStock, "inflow": InflowDrivenDSM, "stockdriven": StockDrivenDSM}[op.get("cls", "simple")]
        kw = {}
        if target is not SimpleFlowDrivenStock and not hasattr(stock, "lifetime_model"):
            kw["lifetime_model"] = FixedLifetime
        if op.get("same_class_bad_kw"):
            # conversion to the stock's own class, handing in an inflow array over other dimensions: must not produce a stock
            target = type(stock)
            dl_ = list(stock.dims)
            bad = DimensionSet(dim_list=dl_[::-1]) if len(dl_) >= 2 else DimensionSet(dim_list=dl_ + [Dimension(name="Foreign", letter="Z", items=["z"])])
            kw = {"inflow": StockArray(dims=bad, values=np.zeros(bad.shape))}
            info.must_raise = "stock-dims-rejected"
            st.fault("to_stock_type_with_foreign_array")
        r = call(st, op, lambda: stock.to_stock_type(target, **kw), info)
    else:
        info.kind = "stock_convert:stock_stack"
        have = list(stock.dims.letters)
        cands = [i for i in range(len(st.D)) if st.LET[i] not in have and st.LET[i].lower() not in have and st.LET[i].upper() not in have]
        if not cands:
            return
        newdim = st.D[cands[op.get("dim", 0) % len(cands)]]
        parts = [stock] * len(newdim.items)
        r = call(st, op, lambda: stock_stack(parts, newdim), info)
    if info.outcome == "ret":
        info.stock = r


def op_valq(st, op, info):
    """read-only queries that hand back plain ndarrays / numbers (sum_values*, cast_values_to, items_where, size / shape / str, the
    stock balance): public operations that are not in place, so C15 N1 (inputs unchanged, returned or raised) and C13 I4 apply"""
    f = op["f"]
    info.kind = "valq:" + f
    if f in ("stock_balance", "check_stock_balance", "cohort_tables", "stock_str"):
        if not st.stocks:
            return
        stock = st.stocks[op.get("k", 0) % len(st.stocks)]
        info.inputs = [stock.stock, stock.inflow, stock.outflow]
        if f == "stock_balance":
            call(st, op, lambda: stock.get_stock_balance(), info)
        elif f == "check_stock_balance":
            import contextlib, io
            def thunk():
                with contextlib.redirect_stdout(io.StringIO()):
                    return stock.check_stock_balance()
            call(st, op, thunk, info)
        elif f == "stock_str":
            call(st, op, lambda: (str(stock), stock.shape, stock.process_id if stock.process is not None else None), info)
        else:
            if not hasattr(stock, "get_stock_by_cohort"):
                info.kind = ""
                return
            call(st, op, lambda: (stock.get_stock_by_cohort(), stock.get_outflow_by_cohort()), info)
        st.probe("valq_" + f + "_" + info.outcome)
        return
    x = st.slot(op["s"])
    if x is None:
        return
    info.inputs = [x]
    dims = list(x.dims)
    sel = []
    for p in op.get("dims", []):
        if dims and dims[p % len(dims)] not in sel:
            sel.append(dims[p % len(dims)])
    twice = {d.name for d in dims if sum(1 for y in dims if y.name == d.name) > 1}
    form = op.get("form", "letter")
    keys = tuple(d.letter if (form == "letter" or d.name in twice) else (d.name if form == "name" else d) for d in sel)
    if f == "sum_values":
        call(st, op, lambda: x.sum_values(), info)
    elif f == "sum_values_over":
        call(st, op, lambda: x.sum_values_over(keys), info)
    elif f == "sum_values_to":
        call(st, op, lambda: x.sum_values_to(keys), info)
    elif f == "cast_values_to":
        extra = st._uniq(op.get("extra", []))
        have = [d.letter for d in dims]
        target = list(dims) + [st.D[i] for i in extra if st.LET[i] not in have]
        rot = op.get("rot", 0) % max(1, len(target))
        tds = DimensionSet(dim_list=target[rot:] + target[:rot])
        info.raw.append(("dimset", tds, dims_sig(tds), lambda s, o: dims_sig(o) == s))
        call(st, op, lambda: x.cast_values_to(tds), info)
    elif f == "items_where":
        thr = float(op.get("num", 2))
        call(st, op, lambda: x.items_where(lambda v: v > thr), info)
    elif f == "describe":
        call(st, op, lambda: (str(x), repr(x.dims), x.shape, x.size, x.dims.total_size), info)
    else:
        raise AssertionError(f)
    st.probe("valq_" + f + "_" + info.outcome)


def op_poke(st, op, info):
    """the user writes a NaN straight into .values of a pooled array (documented direct access)"""
    a = st.slot(op["s"])
    if a is None or not isinstance(a.values, np.ndarray) or a.values.size == 0 or a.values.dtype.kind != "f":
        return
    info.kind = "poke_nan"
    info.inplace = True
    info.target = a
    a.values[np.unravel_index(op.get("entry", 0) % a.values.size, a.values.shape) if a.values.shape else ()] = np.nan
    info.outcome = "ret"


def op_plot(st, op, info):
    """draw a pooled array with one of the array plotters (C15: 'export' operations do not change their inputs)"""
    import matplotlib
    matplotlib.use("Agg")
    from matplotlib import pyplot as plt
    from flodym.export.array_plotter import PyplotArrayPlotter, PlotlyArrayPlotter
    cands = [a for a in st.pool if isinstance(a.values, np.ndarray) and 1 <= a.values.ndim <= 3 and a.values.dtype.kind == "f"]
    if not cands:
        return
    a = cands[op["s"] % len(cands)]
    dims = list(a.dims)
    if len({d.name for d in dims}) != len(dims):
        return
    info.kind = "plot:" + op.get("chart", "line")
    info.inputs = [a]
    kw = {"array": a, "intra_line_dim": dims[0].name if op.get("by_name") else dims[0].letter, "chart_type": op.get("chart", "line")}
    if len(dims) >= 2:
        kw["linecolor_dim"] = dims[1].name
    if len(dims) >= 3:
        kw["subplot_dim"] = dims[2].letter
    cls = PlotlyArrayPlotter if op.get("backend") == "plotly" else PyplotArrayPlotter

    def thunk():
        try:
            return cls(**kw).plot()
        finally:
            plt.close("all")
    call(st, op, thunk, info)
    st.probe("plot_" + info.outcome)


HANDLERS = {"valq": op_valq, "plot": op_plot, "poke": op_poke, "stock_poison": op_stock_poison, "stock_convert": op_stock_convert, "system": op_system, "stock_compute": op_stock_compute, "lifetime": op_lifetime, "mk": op_mk, "arith": op_arith, "reduce": op_reduce, "slice": op_slice, "setitem": op_setitem,
            "set_values": op_set_values, "inplace_unary": op_inplace_unary, "df": op_df, "split": op_split_stack,
            "stack": op_split_stack, "stock": op_stock}
