"""stocksim - C17: recompute histories with crash points; oracle = a freshly built object holding
copies of the current inputs (DESIGN.md 5.3)."""

import copy as _copy
import os
import warnings

from typing import Any

import numpy as np

from simkit.engine import Engine, jhash
from simkit.kernel import Crash, EventLog, INTERRUPTS, Rng, Violation, exc_class, vdig
from simkit import cleanroom

from flodym import (Dimension, DimensionSet, FlodymArray, StockArray, Parameter, SimpleFlowDrivenStock, InflowDrivenDSM,
                    StockDrivenDSM, MFASystem, MFADefinition, DimensionDefinition, FlowDefinition, StockDefinition,
                    ParameterDefinition, make_processes, make_empty_flows, make_empty_stocks)
from flodym.lifetime_models import (LifetimeModel, FixedLifetime, NormalLifetime, FoldedNormalLifetime, LogNormalLifetime, WeibullLifetime)

class DelayedFixedLifetime(FixedLifetime):
    """a user's own lifetime model, written the documented way: a subclass of a built-in model with one more parameter (years in
    storage before use), `prms` extended, `set_prms` calling the parent's first and then storing its own"""
    delay: Any = None

    @property
    def prms(self):
        return {"mean": self.mean, "delay": self.delay}

    def set_prms(self, mean, delay):
        super().set_prms(mean)
        self.delay = self.cast_any_to_np_array(delay)

    def _survival_by_year_id(self, t, m):
        return (t < self.mean[m, ...] + self.delay[m, ...]).astype(int)


LT = {"fixed": FixedLifetime, "normal": NormalLifetime, "folded": FoldedNormalLifetime, "lognormal": LogNormalLifetime,
      "weibull": WeibullLifetime, "delayed": DelayedFixedLifetime}
PRM_NAMES = {"fixed": ["mean"], "normal": ["mean", "std"], "folded": ["mean", "std"], "lognormal": ["mean", "std"],
             "weibull": ["weibull_shape", "weibull_scale"], "delayed": ["mean", "delay"]}
CLS = {"simple": SimpleFlowDrivenStock, "inflow": InflowDrivenDSM, "stockdriven": StockDrivenDSM}


def gen_world(rng):
    nt = rng.randint(3, 7)
    grid = rng.choice(["unit", "const", "uneven"])
    if grid == "unit":
        t = [2000 + i for i in range(nt)]
    elif grid == "const":
        t = [2000 + 5 * i for i in range(nt)]
    else:
        t, cur = [], 1990
        for i in range(nt):
            t.append(cur)
            cur += rng.choice([1, 2, 5, 10])
    extra = []
    for letter in rng.sample("abc", rng.randint(0, 2)):
        n = rng.randint(1, 3)
        extra.append({"letter": letter, "name": {"a": "Alpha", "b": "Beta", "c": "Gamma"}[letter], "items": [f"{letter}{j}x" for j in range(n)]})
    system = rng.chance(0.3)
    stocks = []
    n_st = rng.choice([1, 1, 2]) if system else rng.choice([1, 1, 2])
    for k in range(n_st):
        cls = rng.weighted([("simple", 1 if not system else 0), ("inflow", 4), ("stockdriven", 4)])
        s = {"cls": cls, "lt": rng.choice(list(LT)), "lt_as": rng.choice(["class", "instance", "instance_prms"]),
             "solver": rng.choice(["manual", "lapack"]), "inflow_at": rng.choice(["start", "middle", "end"]),
             "n_pts": rng.choice([1, 1, 2, 3, 5, 10]), "share": None}
        if k == 1 and system and rng.chance(0.7):
            s["lt"] = stocks[0]["lt"]  # two definition-built stocks with the same lifetime class and dims, but their own parameters
        elif k == 1 and stocks[0]["cls"] != "simple" and cls != "simple" and rng.chance(0.6):
            s["share"] = 0
            s["lt"] = stocks[0]["lt"]
        stocks.append(s)
    if len(stocks) == 2 and stocks[1]["share"] is None and rng.chance(0.6):
        stocks[1]["grid2"] = True  # the second stock lives on another time grid with the same number of items
        if stocks[0]["cls"] != "simple" and stocks[1]["cls"] != "simple" and rng.chance(0.5):
            # ... and is otherwise a twin of the first: same lifetime class, same scalar parameters from the start (what differs is the grid)
            stocks[1]["lt"] = stocks[0]["lt"]
            stocks[0]["lt_as"] = stocks[1]["lt_as"] = "instance_prms"
            stocks[1]["same_prms"] = True
    return {"time": t, "extra": extra, "stocks": stocks, "system": system, "grid": grid, "cleanroom": rng.chance(0.3)}


def gen_prm_spec(rng, nd):
    return {"form": rng.weighted([("scalar", 3), ("array", 4), ("timevar", 2), ("ndarray", 1)]),
            "dims": rng.subset(range(nd), 0, nd), "perm": rng.randint(0, 5), "vseed": rng.randint(0, 10 ** 6), "nan": rng.chance(0.06),
            "ints": rng.chance(0.15)}


class _St:
    pass


class _Sys(MFASystem):
    """the generated model component: parameters -> flows -> stock driver -> stock.compute() -> flows"""

    def compute(self):
        stocks = list(self.stocks.values())
        for k, stock in enumerate(stocks):  # first all lifetime parameters ...
            lt = stock.lifetime_model
            lt.set_prms(**{n: self.parameters[f"{n}_{k}"] for n in list(lt.prms)})
        for k, stock in enumerate(stocks):  # ... then drivers and the stock computations
            fin, fout = self.flows[f"sysenv => use{k}"], self.flows[f"use{k} => sysenv"]
            if isinstance(stock, InflowDrivenDSM):
                fin[...] = self.parameters[f"driver_{k}"]
                stock.inflow[...] = fin
                stock.compute()
                fout[...] = stock.outflow
            else:
                stock.stock[...] = self.parameters[f"driver_{k}"]
                stock.compute()
                fin[...] = stock.inflow
                fout[...] = stock.outflow


def _cleanroom_fresh(payload):
    """runs in a pristine forked child: build the stock from plain data, compute, return all results"""
    with np.errstate(all="ignore"), warnings.catch_warnings():
        warnings.simplefilter("ignore")
        dl = [Dimension(name=n, letter=l, items=list(it), dtype={"int": int, "str": str, None: None}[dt]) for n, l, it, dt in payload["dims"]]
        dims = DimensionSet(dim_list=dl)
        kw = {"dims": dims, "name": "cleanroom", "time_letter": payload["time_letter"]}
        if payload["lt"] is not None:
            kw["lifetime_model"] = LT[payload["lt"]](dims=dims, time_letter=payload["time_letter"], inflow_at=payload["inflow_at"],
                                                     n_pts_per_interval=payload["n_pts"], **payload["prms"])
        if payload["cls"] == "stockdriven":
            kw["solver"] = payload["solver"]
        for role, vals in payload["drivers"].items():
            kw[role] = StockArray(dims=dims, values=vals)
        stock = CLS[payload["cls"]](**kw)
        stock.compute()
        return ENGINE._results(stock)


def _cleanroom_run(payload):
    os.environ["VERIF_IN_CLEAN_CHILD"] = "1"
    return ENGINE._execute_local(payload["run"], payload["prop"])


cleanroom.register("stocksim_fresh", _cleanroom_fresh)
cleanroom.register("stocksim_run", _cleanroom_run)


class StockSim(Engine):
    NAME = "stocksim"
    LEVEL = {"C17": "fault_enumeration"}
    USES_CLEANROOM = True

    def tasks(self, prop, tier, seed):
        n = {"quick": 2500, "thorough": 60000}[tier]
        ns = {"quick": 80, "thorough": 2000}[tier]
        nsc = {"quick": 160, "thorough": 4000}[tier]
        return [{"kind": "hist", "idx": k} for k in range(n)] + [{"kind": "sweep", "idx": k} for k in range(ns)] + \
               [{"kind": "script", "idx": k} for k in range(nsc)]

    def budget(self, prop, tier):
        return 300 if tier == "quick" else 3000

    # ------------------------------------------------------------------ generation
    def generate(self, task, prop, seed, tier):
        rng = Rng(self.NAME, prop, seed, task["kind"], task["idx"])
        world = gen_world(rng)
        if task["kind"] == "script":
            return self._gen_script(rng, world, task["idx"])
        nd = 1 + len(world["extra"])
        fp = rng.choice([0.0, 0.1, 0.25]) if task["kind"] == "hist" else 0.0
        fp_bad = fp if task["kind"] == "hist" else 0.2  # sweeps: operations that fail by themselves are swept too (faults during error handling)
        n_ops = rng.randint(4, 14)
        ops = []
        nst = len(world["stocks"])
        for _ in range(n_ops):
            k = rng.randint(0, nst - 1)
            if world["system"]:
                kind = rng.weighted([("set_param", 5), ("sys_compute", 5), ("read", 1)])
            else:
                kind = rng.weighted([("set_driver", 4), ("set_prms", 5), ("compute", 6), ("read", 2), ("twin", 1)])
            if kind == "set_driver":
                op = {"op": "set_driver", "k": k, "how": rng.weighted([("whole", 3), ("entry", 2), ("setitem", 2), ("scale", 2), ("zero", 2), ("layout", 2)]), "vseed": rng.randint(0, 10 ** 6)}
            elif kind == "set_prms":
                op = {"op": "set_prms", "k": k, "specs": [gen_prm_spec(rng, nd), gen_prm_spec(rng, nd)]}
                if rng.chance(fp_bad):
                    op["bad"] = "negative"
                elif rng.chance(0.2):
                    op["nudge"] = rng.choice([1e-7, 1e-6, -1e-6, 1e-4])  # almost the same parameters again
            elif kind == "compute":
                op = {"op": "compute", "k": k, "twice": rng.chance(0.3)}
            elif kind == "read":
                op = {"op": "read", "k": k, "what": rng.choice(["sf", "pdf"])}
            elif kind == "twin":
                op = {"op": "twin", "k": k}
            elif kind == "set_param":
                op = {"op": "set_param", "which": rng.randint(0, 2), "spec": gen_prm_spec(rng, nd), "vseed": rng.randint(0, 10 ** 6), "nan": rng.chance(0.08)}
                if rng.chance(fp_bad):
                    op["bad"] = "negative"
                elif rng.chance(0.2):
                    op["nudge"] = rng.choice([1e-7, 1e-6, -1e-6, 1e-4])
            else:
                op = {"op": "sys_compute", "twice": rng.chance(0.3)}
            if op["op"] in ("compute", "read", "set_prms", "sys_compute") and rng.chance(fp):
                op["fault"] = {"kind": "interrupt", "at": rng.randint(1, 400), "flavour": rng.choice(["mem", "kbd"])}
            ops.append(op)
        return {"world": world, "ops": ops}

    def _gen_script(self, rng, world, idx):
        """histories with a shape that random mixing rarely produces"""
        world["system"] = False
        for s in world["stocks"]:
            if s["cls"] == "simple":
                s["cls"] = rng.choice(["inflow", "stockdriven"])
            s.pop("grid2", None)
        k = rng.randint(0, len(world["stocks"]) - 1)
        if idx % 2 == 0:
            # (A) the tables are rebuilt by somebody else between set_prms and this stock's compute: a table read, or the other
            # stock that shares the model; parameters go from one number for all to item-specific
            if not any(len(e["items"]) >= 2 for e in world["extra"]):
                world["extra"] = [{"letter": "a", "name": "Alpha", "items": ["a0x", "a1x", "a2x"]}]
            nd = 1 + len(world["extra"])
            per_item = [i + 1 for i, e in enumerate(world["extra"]) if len(e["items"]) >= 2]
            scalar = lambda: {"form": "scalar", "dims": [], "perm": 0, "vseed": rng.randint(0, 10 ** 6)}  # noqa
            by_item = lambda: {"form": rng.choice(["array", "ndarray"]), "dims": list(per_item) if rng.chance(0.7) else list(range(nd)),  # noqa
                               "perm": rng.randint(0, 5), "vseed": rng.randint(0, 10 ** 6)}
            other = [j for j in range(len(world["stocks"])) if j != k]
            between = {"op": "read", "k": k, "what": rng.choice(["sf", "pdf"])} if (not other or rng.chance(0.6)) else {"op": "compute", "k": other[0], "twice": False}
            ops = [{"op": "set_prms", "k": k, "specs": [scalar(), scalar()]}, {"op": "compute", "k": k, "twice": False},
                   {"op": "set_prms", "k": k, "specs": [by_item(), by_item()]}, between, {"op": "compute", "k": k, "twice": rng.chance(0.3)}]
            if rng.chance(0.5):
                ops += [{"op": "set_prms", "k": k, "specs": [scalar(), scalar()]}, dict(between), {"op": "compute", "k": k, "twice": False}]
            return {"world": world, "ops": ops}
        # (B) parameter arrays with more than a thousand entries that change somewhere in the middle only
        world["time"] = [1990 + i for i in range(26)]
        world["extra"] = [{"letter": "a", "name": "Alpha", "items": [f"a{j}x" for j in range(42)]}]
        world["grid"] = "unit"
        full = lambda: {"form": rng.choice(["array", "ndarray"]), "dims": [0, 1], "perm": 0, "vseed": rng.randint(0, 10 ** 6)}  # noqa
        ops = [{"op": "set_prms", "k": k, "specs": [full(), full()]}, {"op": "compute", "k": k, "twice": False}]
        for _ in range(rng.randint(1, 2)):
            ops += [{"op": "set_prms", "k": k, "specs": [full(), full()], "bump": rng.randint(1, 10 ** 6)}, {"op": "compute", "k": k, "twice": False}]
        return {"world": world, "ops": ops}

    def run_task(self, task, prop, seed, tier):
        run = self.generate(task, prop, seed, tier)
        if task["kind"] == "script":
            # every stock gets a driver first (an all-zero stock computes to zero whatever the tables are)
            run["ops"] = [{"op": "set_driver", "k": j, "how": "whole", "vseed": 1000 + 17 * j + task["idx"]}
                          for j in range(len(run["world"]["stocks"]))] + run["ops"]
        res = self.execute(run, prop)
        if task["kind"] == "sweep" and not res.get("violation"):
            res = self._sweep(run, prop, Rng(self.NAME, "sweep", seed, task["idx"]), res, tier)
        if res.get("violation") and "run" not in res:
            r = dict(run)
            r["task"] = {k: v for k, v in task.items() if k != "keep"}
            res["run"] = r
        if task.get("keep"):
            res["sample"] = {"task": {k: v for k, v in task.items() if k != "keep"}, "run": run}
        return res

    def _sweep(self, run, prop, rng, base, tier):
        cands = [i for i, op in enumerate(run["ops"]) if op["op"] in ("compute", "read", "set_prms", "sys_compute")]
        if not cands:
            return base
        j = rng.choice(cands)
        flavour = rng.choice(["mem", "kbd"])
        # make sure something is computed after the crash point so that the recovery clause is evaluated
        tail = [{"op": "sys_compute", "twice": False}] if run["world"]["system"] else \
            [{"op": "set_prms", "k": run["ops"][j].get("k", 0), "specs": [gen_prm_spec(rng, 1), gen_prm_spec(rng, 1)]},
             {"op": "compute", "k": run["ops"][j].get("k", 0), "twice": False}]
        probe = _copy.deepcopy(run)
        probe["ops"] = probe["ops"] + tail
        probe["ops"][j]["fault"] = {"kind": "interrupt", "at": None, "flavour": flavour}
        res0 = self.execute(probe, prop)
        n = res0.get("line_counts", {}).get(j, 0)
        points = list(range(1, n + 1))
        cap = 60 if tier == "quick" else 800
        exhaustive = len(points) <= cap
        if not exhaustive:
            points = sorted(rng.sample(points, cap))
        agg = base
        agg["probes"] = dict(agg.get("probes", {}))
        agg["faults"] = dict(agg.get("faults", {}))
        agg["clauses"] = dict(agg.get("clauses", {}))
        agg["probes"]["crash_points_enumerated"] = agg["probes"].get("crash_points_enumerated", 0) + len(points)
        if exhaustive and n:
            agg["probes"]["ops_with_all_crash_points_enumerated"] = agg["probes"].get("ops_with_all_crash_points_enumerated", 0) + 1
        for k in points:
            rk = _copy.deepcopy(probe)
            rk["ops"][j]["fault"] = {"kind": "interrupt", "at": k, "flavour": flavour}
            r = self.execute(rk, prop)
            for name, c in r.get("faults", {}).items():
                agg["faults"][name] = agg["faults"].get(name, 0) + c
            for name, c in r.get("clauses", {}).items():
                agg["clauses"][name] = agg["clauses"].get(name, 0) + c
            for name, c in r.get("probes", {}).items():
                agg["probes"][name] = agg["probes"].get(name, 0) + c
            agg["steps"] += r["steps"]
            if r.get("violation"):
                r["run"] = rk
                r["run"]["task"] = None
                return r
        agg["sig"] = jhash([agg["sig"], "sweep", run["ops"][j]["op"], n])
        return agg

    # ------------------------------------------------------------------ building the world
    def _dims(self, world):
        dl = [Dimension(name="Time", letter="t", items=list(world["time"]), dtype=int)]
        for e in world["extra"]:
            dl.append(Dimension(name=e["name"], letter=e["letter"], items=list(e["items"]), dtype=str))
        return DimensionSet(dim_list=dl)

    def _prm_value(self, st, spec, lo, hi):
        """a parameter value in one of the accepted forms, every entry in [lo, hi]"""
        rs = np.random.RandomState(spec["vseed"] % 2 ** 31)
        dims = st.dims
        form = spec["form"]
        if form == "scalar":
            return float(np.round(rs.uniform(lo, hi), 3))
        def whole(v_):
            # whole-number parameters held as integer arrays (lifetimes in years read from a table of ints)
            st.probes["parameter_array_of_integer_type"] = st.probes.get("parameter_array_of_integer_type", 0) + 1
            return np.maximum(np.round(v_), 1).astype(np.int64)
        if form == "ndarray":
            v = np.round(rs.uniform(lo, hi, size=dims.shape), 3)
            if spec.get("ints") and not spec.get("nan"):
                return whole(v)
            if spec.get("nan") and v.size > 1:
                v.reshape(-1)[-1] = np.nan  # "not known" for one label combination: that series is NaN, the others are not affected
                st.probes["parameter_with_nan_entry"] = st.probes.get("parameter_with_nan_entry", 0) + 1
            return v
        dl = list(dims)
        sel = [dl[i % len(dl)] for i in spec["dims"]]
        uniq = []
        for d in sel:
            if d.letter not in [u.letter for u in uniq]:
                uniq.append(d)
        if form == "timevar" and "t" not in [u.letter for u in uniq]:
            uniq.append(dl[0])
        if form == "array":
            pass
        rot = spec["perm"] % max(1, len(uniq))
        uniq = uniq[rot:] + uniq[:rot]
        ds = DimensionSet(dim_list=uniq)
        v = np.round(rs.uniform(lo, hi, size=ds.shape), 3)
        if spec.get("nan") and v.size > 1:
            v.reshape(-1)[-1] = np.nan
            st.probes["parameter_with_nan_entry"] = st.probes.get("parameter_with_nan_entry", 0) + 1
        elif spec.get("ints"):
            v = whole(v)
        return FlodymArray(dims=ds, values=v)

    def _prm_kwargs(self, st, lt_name, specs, bad=None):
        names = PRM_NAMES[lt_name]
        ranges = {"mean": (1.0, 8.0), "std": (0.5, 2.5), "weibull_shape": (0.8, 3.0), "weibull_scale": (1.0, 8.0), "delay": (0.0, 3.0)}
        kw = {}
        for n, spec in zip(names, specs):
            lo, hi = ranges[n]
            kw[n] = self._prm_value(st, spec, lo, hi)
        if bad == "negative":
            first = names[0]
            v = kw[first]
            if isinstance(v, FlodymArray):
                kw[first] = FlodymArray(dims=v.dims, values=-v.values)
            else:
                kw[first] = -v
        return kw

    def _build(self, st, world):
        st.dims = self._dims(world)
        st.stocks, st.lts = [], []
        if world["system"]:
            letters = tuple(d.letter for d in st.dims)
            procs, flows, sdefs, pdefs, pnames = ["sysenv"], [], [], [], []
            for k, s in enumerate(world["stocks"]):
                procs.append(f"use{k}")
                flows += [FlowDefinition(from_process="sysenv", to_process=f"use{k}", dim_letters=letters),
                          FlowDefinition(from_process=f"use{k}", to_process="sysenv", dim_letters=letters)]
                sdefs.append(StockDefinition(name=f"in_use{k}", process=f"use{k}", dim_letters=letters, subclass=CLS[s["cls"]],
                                             lifetime_model_class=LT[s["lt"]], solver=s["solver"]))
                pnames += [f"{n}_{k}" for n in PRM_NAMES[s["lt"]]] + [f"driver_{k}"]
            definition = MFADefinition(
                dimensions=[DimensionDefinition(name=d.name, letter=d.letter, dtype=d.dtype) for d in st.dims],
                processes=procs, flows=flows, stocks=sdefs,
                parameters=[ParameterDefinition(name=n, dim_letters=letters) for n in pnames],
            )
            st.definition = definition
            st.param_names = pnames
            st.system = self._new_system(st, None)
            st.stocks = list(st.system.stocks.values())
            st.lts = [x.lifetime_model for x in st.stocks]
            return
        handles = []
        for k, s in enumerate(world["stocks"]):
            dims_k = st.dims
            if s.get("grid2"):
                dl = list(st.dims)
                t2 = Dimension(name="Time", letter="t", items=[1900 + 3 * i + (i * i) % 2 for i in range(len(dl[0].items))], dtype=int)
                dims_k = DimensionSet(dim_list=[t2] + dl[1:])
            kw = {"dims": dims_k, "name": f"s{k}", "time_letter": "t"}
            if s["cls"] != "simple":
                if s["share"] is not None and not isinstance(st.stocks[s["share"]], SimpleFlowDrivenStock):
                    # the caller's own handle: the object the other stock was given (or built itself from a class)
                    kw["lifetime_model"] = handles[s["share"]] if handles[s["share"]] is not None else st.stocks[s["share"]].lifetime_model
                elif s["lt_as"] == "class":
                    kw["lifetime_model"] = LT[s["lt"]]
                else:
                    lkw = {"dims": dims_k, "time_letter": "t", "inflow_at": s["inflow_at"], "n_pts_per_interval": s["n_pts"]}
                    if s["lt_as"] == "instance_prms":
                        k_ = 0 if s.get("same_prms") else k
                        specs = [{"form": "scalar", "dims": [], "perm": 0, "vseed": 11 + k_}, {"form": "scalar", "dims": [], "perm": 0, "vseed": 12 + k_}]
                        lkw.update(self._prm_kwargs(st, s["lt"], specs))
                    kw["lifetime_model"] = LT[s["lt"]](**lkw)
                if s["cls"] == "stockdriven":
                    kw["solver"] = s["solver"]
            st.stocks.append(CLS[s["cls"]](**kw))
            handles.append(kw["lifetime_model"] if isinstance(kw.get("lifetime_model"), LifetimeModel) else None)
        # parameters are set and read through the handle the caller kept, where there is one (flodym keeps the instance it is given)
        st.lts = [h if h is not None else getattr(x, "lifetime_model", None) for h, x in zip(handles, st.stocks)]

    def _new_system(self, st, params_from):
        d = st.definition
        dims = st.dims
        processes = make_processes(d.processes)
        flows = make_empty_flows(processes=processes, flow_definitions=d.flows, dims=dims)
        stocks = make_empty_stocks(processes=processes, stock_definitions=d.stocks, dims=dims)
        params = {}
        for pd_ in d.parameters:
            ds = dims.get_subset(pd_.dim_letters)
            if params_from is None:
                base = {"mean": 4.0, "std": 1.5, "weibull_shape": 2.0, "weibull_scale": 4.0, "driver": 1.0, "delay": 1.0}[pd_.name.rsplit("_", 1)[0]]
                base = base + 0.5 * int(pd_.name.rsplit("_", 1)[1])  # every stock starts with its own parameter values
                vals = np.full(ds.shape, base)
            else:
                vals = params_from[pd_.name].values.copy()
            params[pd_.name] = Parameter(dims=ds, values=vals, name=pd_.name)
        return _Sys(dims=dims, parameters=params, processes=processes, flows=flows, stocks=stocks)

    # ------------------------------------------------------------------ fresh-object oracle
    def _results(self, stock):
        out = {"stock": stock.stock.values.copy(), "inflow": stock.inflow.values.copy(), "outflow": stock.outflow.values.copy()}
        if not isinstance(stock, SimpleFlowDrivenStock):
            out["stock_by_cohort"] = np.array(stock.get_stock_by_cohort(), copy=True)
            out["outflow_by_cohort"] = np.array(stock.get_outflow_by_cohort(), copy=True)
            for tab in ("sf", "pdf"):
                try:
                    out[tab] = np.array(getattr(stock.lifetime_model, tab), copy=True)
                except Exception as e:  # noqa - e.g. parameters that compute() never looked at
                    out[tab] = np.array([-1.0 - sum(map(ord, exc_class(e)))])
        return out

    def _drivers(self, stock):
        if isinstance(stock, InflowDrivenDSM):
            return {"inflow": stock.inflow.values.copy()}
        if isinstance(stock, StockDrivenDSM):
            return {"stock": stock.stock.values.copy()}
        return {"inflow": stock.inflow.values.copy(), "outflow": stock.outflow.values.copy()}

    def _fresh(self, stock, drivers, lt=None, given=None):
        kw = {"dims": stock.dims, "name": "fresh", "time_letter": stock.time_letter}
        if not isinstance(stock, SimpleFlowDrivenStock):
            lt = lt if lt is not None else stock.lifetime_model
            prms = {k: (None if v is None else np.array(v, copy=True)) for k, v in lt.prms.items()}
            if given is not None:
                prms = {k: (v.copy() if isinstance(v, FlodymArray) else (np.array(v, copy=True) if isinstance(v, np.ndarray) else v)) for k, v in given.items()}
            kw["lifetime_model"] = type(lt)(dims=stock.dims, time_letter=lt.time_letter, inflow_at=lt.inflow_at,
                                            n_pts_per_interval=lt.n_pts_per_interval, **prms)
        if isinstance(stock, StockDrivenDSM):
            kw["solver"] = stock.solver
        for role, vals in drivers.items():
            kw[role] = StockArray(dims=stock.dims, values=vals.copy())
        return type(stock)(**kw)

    def _compare(self, st, got, want, clause, what):
        st.clauses[clause] = st.clauses.get(clause, 0) + 1
        for k in want:
            a, b = got[k], want[k]
            if a.shape != b.shape or not np.array_equal(a, b, equal_nan=True):
                with np.errstate(all="ignore"), warnings.catch_warnings():
                    warnings.simplefilter("ignore")
                    diff = float(np.nanmax(np.abs(a - b))) if a.shape == b.shape else None
                raise Violation(clause, f"{what}: '{k}' differs (max abs difference {diff})", cls=clause, array=k)

    def _judge_compute(self, st, stock, drivers, what, lt=None, given=None):
        """after a compute() that returned: results must equal those of a fresh object with the same inputs"""
        got = self._results(stock)
        try:
            with np.errstate(all="ignore"), warnings.catch_warnings():
                warnings.simplefilter("ignore")
                fresh = self._fresh(stock, drivers, lt, given)
                fresh.compute()
        except Exception as e:  # noqa
            st.clauses["recompute==fresh"] = st.clauses.get("recompute==fresh", 0) + 1
            raise Violation("recompute==fresh", f"{what}: the reused object's compute() returned, but a fresh object with the same "
                                                f"inputs raises {exc_class(e)}", cls="recompute==fresh", array="raises")
        self._compare(st, got, self._results(fresh), "recompute==fresh", what)
        if getattr(st, "cleanroom", False) and cleanroom.available() and os.environ.get("VERIF_IN_CLEAN_CHILD"):
            self._judge_cleanroom(st, stock, drivers, got, what, lt)

    def _judge_cleanroom(self, st, stock, drivers, got, what, lt=None):
        """the same inputs computed in a pristine process: exposes state leaking through module / class level caches"""
        cls = [k for k, c in CLS.items() if type(stock) is c][0]
        lt = lt if lt is not None else getattr(stock, "lifetime_model", None)
        payload = {"dims": [(d.name, d.letter, list(d.items), None if d.dtype is None else d.dtype.__name__) for d in stock.dims],
                   "cls": cls, "time_letter": stock.time_letter, "drivers": {k: v.copy() for k, v in drivers.items()},
                   "lt": None, "solver": getattr(stock, "solver", None)}
        if lt is not None:
            payload.update({"lt": [k for k, c in LT.items() if type(lt) is c][0], "inflow_at": lt.inflow_at, "n_pts": lt.n_pts_per_interval,
                            "prms": {k: np.array(v, copy=True) for k, v in lt.prms.items()}})
        try:
            status, ref = cleanroom.request("stocksim_fresh", payload)
        except Exception:  # noqa - no verdict without a clean room
            return
        st.probes["cleanroom_comparisons"] = st.probes.get("cleanroom_comparisons", 0) + 1
        if status != "ok":
            raise Violation("recompute==cleanroom", f"{what}: compute() returned here, but the same inputs raise {ref} in a pristine process",
                            cls="recompute==cleanroom", array="raises")
        self._compare(st, got, ref, "recompute==cleanroom", what + " (vs. the same inputs in a pristine process)")

    # ------------------------------------------------------------------ execution
    def _call(self, st, op, n, thunk):
        f = op.get("fault")
        with np.errstate(all="ignore"), warnings.catch_warnings():
            warnings.simplefilter("ignore")
            if f and f.get("kind") == "interrupt":
                c = Crash(at=f.get("at"), flavour=f.get("flavour", "mem"))
                try:
                    with c:
                        thunk()
                    out = "ret"
                except INTERRUPTS:
                    out = "interrupt"
                    st.faults["interrupt_" + f.get("flavour", "mem")] = st.faults.get("interrupt_" + f.get("flavour", "mem"), 0) + 1
                    st.last_fired = c.fired
                    if c.fired and "lifetime_models.py" in c.fired:
                        st.probes["interrupt_inside_lifetime_model"] = st.probes.get("interrupt_inside_lifetime_model", 0) + 1
                except Exception as e:  # noqa
                    out = "raise:" + exc_class(e)
                st.line_counts[n] = c.count
                return out
            try:
                thunk()
                return "ret"
            except INTERRUPTS:
                raise
            except Exception as e:  # noqa
                return "raise:" + exc_class(e)

    def execute(self, run, prop):
        """runs whose world asks for it are executed in a child forked from the pristine clean-room server, so that the only
        state that can leak into them is the state their own history created - which makes every verdict replayable"""
        if run["world"].get("cleanroom") and cleanroom.available() and not os.environ.get("VERIF_IN_CLEAN_CHILD"):
            try:
                status, res = cleanroom.request("stocksim_run", {"run": run, "prop": prop})
                if status == "ok":
                    return res
            except Exception:  # noqa - fall back to this process
                pass
        return self._execute_local(run, prop)

    def _execute_local(self, run, prop):
        st = _St()
        st.log = EventLog()
        st.clauses, st.probes, st.faults, st.line_counts = {}, {}, {}, {}
        st.sig, st.states = [], set()
        st.last_fired = None
        world = run["world"]
        st.cleanroom = bool(world.get("cleanroom"))
        self._build(st, world)
        violation = None
        steps = 0
        hist = []  # abstract history per stock for the probe counters
        st.trail = [[] for _ in st.stocks]
        for n, op in enumerate(run["ops"]):
            steps += 1
            st.log.add("invoke", step=n, op=op)
            try:
                out = self._step(st, world, op, n)
            except Violation as v:
                violation = {"clause": v.clause, "step": n, "detail": v.detail, "tags": v.tags}
                st.log.add("violation", step=n, clause=v.clause)
                break
            st.log.add("outcome", step=n, outcome=out, fired=st.last_fired if out == "interrupt" else None,
                       v=[vdig(s.stock.values) + vdig(s.outflow.values) for s in st.stocks])
            st.sig.append((op["op"], op.get("how"), out, bool(op.get("fault")), op.get("bad")))
            cache = tuple((lt is not None and getattr(lt, "_sf", None) is not None, lt is not None and getattr(lt, "_pdf", None) is not None)
                          for lt in st.lts)
            st.states.add(jhash([cache, [t[-3:] for t in st.trail]]))
        n_comp = st.clauses.get("recompute==fresh", 0)
        nontrivial = n_comp > 0 and any(len(t) >= 2 for t in st.trail)
        return {"violation": violation, "digest": st.log.digest(), "steps": steps, "faults": st.faults, "probes": st.probes,
                "clauses": st.clauses, "sig": jhash(st.sig), "nontrivial": bool(nontrivial), "states": sorted(st.states),
                "line_counts": st.line_counts}

    def _probe(self, st, name):
        st.probes[name] = st.probes.get(name, 0) + 1

    def _note(self, st, k, what):
        tr = st.trail[k]
        tr.append(what)
        tail = tr[-3:]
        if tail == ["compute", "set_prms", "compute"]:
            self._probe(st, "compute_setprms_compute")
        if tail == ["compute", "set_driver", "compute"]:
            self._probe(st, "compute_setdriver_compute")
        if len(tr) >= 2 and tr[-1] == "compute" and "failed" in tr[-2]:
            self._probe(st, "compute_right_after_failed_step")
        if len(tr) >= 2 and tr[-1] == "compute" and "interrupted" in tr[-2]:
            self._probe(st, "compute_right_after_interrupt")
        if tail[-2:] == ["compute", "compute"]:
            self._probe(st, "compute_twice")

    def _step(self, st, world, op, n):
        kind = op["op"]
        if kind in ("set_param", "sys_compute"):
            if not world["system"]:
                return "skip"
            return self._step_system(st, world, op, n)
        if world["system"]:
            if kind != "read":
                return "skip"
        k = op.get("k", 0) % len(st.stocks)
        stock = st.stocks[k]
        spec = world["stocks"][k]
        shared = [j for j, lt in enumerate(st.lts) if lt is not None and lt is st.lts[k]]
        if kind == "set_driver":
            rs = np.random.RandomState(op["vseed"] % 2 ** 31)
            arrs = [stock.inflow, stock.outflow] if spec["cls"] == "simple" else ([stock.inflow] if spec["cls"] == "inflow" else [stock.stock])
            for a in arrs:
                new = np.round(rs.uniform(0.5, 10.0, size=a.values.shape), 3)
                if op["how"] == "zero":
                    a.values[...] = 0.0
                    self._probe(st, "driver_set_to_zero")
                elif op["how"] == "whole":
                    if new.ndim >= 2 and op["vseed"] % 3 == 0:
                        new = np.asfortranarray(new)
                    a.set_values(new)
                elif op["how"] == "setitem":
                    a[...] = FlodymArray(dims=a.dims, values=new)
                elif op["how"] == "scale":
                    a.values[...] = a.values * 2.0 + 1.0
                else:
                    idx = tuple(int(rs.randint(0, s)) for s in a.values.shape)
                    a.values[idx] = float(new[idx])
            if op["how"] == "layout":
                # the model stored its arrays the other way round (results of a transposed computation handed to the public setter):
                # same numbers, but neither the driver nor the result arrays are C-contiguous any more
                for a in (stock.stock, stock.inflow, stock.outflow):
                    v = a.values
                    if v.ndim >= 3 and op["vseed"] % 2:
                        perm = (0,) + tuple(range(v.ndim - 1, 0, -1))
                        inv = tuple(int(i) for i in np.argsort(perm))
                        a.set_values(np.ascontiguousarray(v.transpose(perm)).transpose(inv))
                    elif v.ndim >= 2:
                        a.set_values(np.asfortranarray(v))
                    if v.ndim >= 2:
                        self._probe(st, "stock_arrays_not_c_contiguous")
            self._note(st, k, "set_driver")
            return "ret"
        if kind == "set_prms":
            if spec["cls"] == "simple":
                return "skip"
            lt = st.lts[k]
            ltname = [nme for nme, c in LT.items() if type(lt) is c][0]
            kw = self._prm_kwargs(st, ltname, op["specs"], op.get("bad"))
            if op.get("nudge") and all(v is not None for v in lt.prms.values()):
                kw = {k_: np.array(v, copy=True) * (1.0 + op["nudge"]) for k_, v in lt.prms.items()}
                self._probe(st, "set_prms_almost_equal_values")
            if op.get("bump") and all(v is not None for v in lt.prms.values()):
                # the parameters as they are, except for one entry somewhere in the middle
                kw = {}
                for k_, v in lt.prms.items():
                    a = np.array(v, copy=True, dtype=float)
                    if a.ndim:
                        idx = tuple((op["bump"] // (7 ** ax)) % max(1, sz - 8) + 4 if sz > 8 else sz // 2 for ax, sz in enumerate(a.shape))
                        a[idx] = a[idx] * 1.5 + 0.25
                    else:
                        a = a * 1.5 + 0.25
                    kw[k_] = a
                self._probe(st, "set_prms_one_interior_entry_of_a_large_array")
            if op.get("bad"):
                st.faults["negative_parameter"] = st.faults.get("negative_parameter", 0) + 1
            out = self._call(st, op, n, lambda: lt.set_prms(**kw))
            if not hasattr(st, "given"):
                st.given = {}
            for j in shared:
                # "a freshly built stock with the same inputs": the inputs are what the caller handed to set_prms (copies taken now).
                # After a set_prms that raised or was interrupted the model may hold a mixture; the reference then falls back to
                # what the model reports (prms)
                st.given[j] = None if out != "ret" else {k_: (v.copy() if isinstance(v, FlodymArray) else (np.array(v, copy=True) if isinstance(v, np.ndarray) else v))
                                                         for k_, v in kw.items()}
            for j in shared:
                self._note(st, j, "set_prms" if out == "ret" else ("interrupted_set_prms" if out == "interrupt" else "failed_set_prms"))
            if len(shared) > 1:
                self._probe(st, "set_prms_on_shared_lifetime_model")
            return out
        if kind == "read":
            if spec["cls"] == "simple":
                return "skip"
            lt = st.lts[k]
            out = self._call(st, op, n, (lambda: lt.sf) if op["what"] == "sf" else (lambda: lt.pdf))
            if out.startswith("raise"):
                self._probe(st, "read_table_failed")
            for j in shared:
                self._note(st, j, "read" if out == "ret" else ("interrupted_read" if out == "interrupt" else "failed_read"))
            return out
        if kind == "twin":
            # a scenario twin made the pydantic way - a shallow model_copy with arrays and lifetime model of its own - gets another driver
            # and is computed: its results are those of a fresh stock, and the original's results are not touched by it
            if spec["cls"] == "simple" or not getattr(st, "computed", {}).get(k):
                return "skip"
            lt = st.lts[k]
            try:
                with np.errstate(all="ignore"), warnings.catch_warnings():
                    warnings.simplefilter("ignore")
                    prms = {k_: (None if v is None else np.array(v, copy=True)) for k_, v in lt.prms.items()}
                    lt2 = type(lt)(dims=stock.dims, time_letter=lt.time_letter, inflow_at=lt.inflow_at, n_pts_per_interval=lt.n_pts_per_interval, **prms)
                    twin = stock.model_copy(update={"stock": stock.stock.copy(), "inflow": stock.inflow.copy(), "outflow": stock.outflow.copy(),
                                                    "lifetime_model": lt2})
            except Exception:  # noqa
                return "skip"
            before = self._results(stock)
            drv = twin.inflow if spec["cls"] == "inflow" else twin.stock
            drv.values[...] = drv.values * 2.0 + 1.0
            drivers = self._drivers(twin)
            out = self._call(st, op, n, lambda: twin.compute())
            self._probe(st, "scenario_twin_computed")
            if out == "ret":
                self._judge_compute(st, twin, drivers, f"twin of {type(stock).__name__}.compute() at step {n}", lt2)
            self._compare(st, self._results(stock), before, "twin-leaves-original", f"results of the original after its model_copy twin was computed ({out})")
            return out
        if kind == "compute":
            drivers = self._drivers(stock)
            out = self._call(st, op, n, lambda: stock.compute())
            if out == "ret":
                if not hasattr(st, "computed"):
                    st.computed = {}
                st.computed[k] = True
                self._note(st, k, "compute")
                self._judge_compute(st, stock, drivers, f"{type(stock).__name__}.compute() at step {n}", st.lts[k], getattr(st, "given", {}).get(k))
                if op.get("twice"):
                    first = self._results(stock)
                    out2 = self._call(st, {}, n, lambda: stock.compute())
                    if out2 != "ret":
                        raise Violation("compute-twice", f"second compute() in a row ended with {out2}", cls="compute-twice")
                    self._note(st, k, "compute")
                    self._compare(st, self._results(stock), first, "compute-twice", "second compute() in a row")
            else:
                self._note(st, k, "interrupted_compute" if out == "interrupt" else "failed_compute")
            return out
        raise AssertionError(kind)

    def _step_system(self, st, world, op, n):
        sys_ = st.system
        names = st.param_names
        if op["op"] == "set_param":
            name = names[op["which"] % len(names)]
            p = sys_.parameters[name]
            ranges = {"mean": (1.0, 8.0), "std": (0.5, 2.5), "weibull_shape": (0.8, 3.0), "weibull_scale": (1.0, 8.0), "driver": (0.5, 10.0), "delay": (0.0, 3.0)}
            lo, hi = ranges[name.rsplit("_", 1)[0]]
            rs = np.random.RandomState(op["vseed"] % 2 ** 31)
            vals = np.round(rs.uniform(lo, hi, size=p.values.shape), 3)
            if op.get("nudge"):
                vals = p.values * (1.0 + op["nudge"])
                self._probe(st, "set_prms_almost_equal_values")
            if op.get("nan") and vals.size > 1:
                vals.reshape(-1)[-1] = np.nan  # "not known" for one label combination
                self._probe(st, "parameter_with_nan_entry")
            if op.get("bad") and not name.startswith("driver"):
                vals = -vals
                st.faults["negative_parameter"] = st.faults.get("negative_parameter", 0) + 1
            p.values[...] = vals
            self._note(st, 0, "set_prms" if not name.startswith("driver") else "set_driver")
            return "ret"
        out = self._call(st, op, n, lambda: sys_.compute())
        if out != "ret":
            self._note(st, 0, "interrupted_compute" if out == "interrupt" else "failed_compute")
            return out
        self._note(st, 0, "compute")
        got = self._sys_results(sys_)
        try:
            with np.errstate(all="ignore"), warnings.catch_warnings():
                warnings.simplefilter("ignore")
                fresh = self._new_system(st, sys_.parameters)
                fresh.compute()
        except Exception as e:  # noqa
            st.clauses["system-recompute==fresh"] = st.clauses.get("system-recompute==fresh", 0) + 1
            raise Violation("system-recompute==fresh", f"system.compute() returned but a freshly built system with the same parameter "
                                                       f"values raises {exc_class(e)}", cls="system-recompute==fresh", array="raises")
        self._compare(st, got, self._sys_results(fresh), "system-recompute==fresh", f"system.compute() at step {n}")
        # every stock of the system must also equal a stand-alone stock built directly from the values the system's parameters hold
        for k, (sname, stock) in enumerate(sys_.stocks.items()):
            lt = stock.lifetime_model
            try:
                with np.errstate(all="ignore"), warnings.catch_warnings():
                    warnings.simplefilter("ignore")
                    prms = {n_: sys_.parameters[f"{n_}_{k}"].values.copy() for n_ in list(lt.prms)}
                    alone_lt = type(lt)(dims=stock.dims, time_letter=stock.time_letter, **prms)
                    kw = {"dims": stock.dims, "name": "alone", "time_letter": stock.time_letter, "lifetime_model": alone_lt}
                    drv = sys_.parameters[f"driver_{k}"].values.copy()
                    if isinstance(stock, StockDrivenDSM):
                        kw["solver"] = stock.solver
                        kw["stock"] = StockArray(dims=stock.dims, values=drv)
                    else:
                        kw["inflow"] = StockArray(dims=stock.dims, values=drv)
                    alone = type(stock)(**kw)
                    alone.compute()
            except Exception as e:  # noqa
                st.clauses["system-stock==standalone"] = st.clauses.get("system-stock==standalone", 0) + 1
                raise Violation("system-stock==standalone", f"system.compute() returned but a stand-alone stock with the parameter values of "
                                                            f"'{sname}' raises {exc_class(e)}", cls="system-stock==standalone", array="raises")
            self._compare(st, self._results(stock), self._results(alone), "system-stock==standalone",
                          f"stock '{sname}' after system.compute() at step {n} (vs. a stand-alone stock with the system's parameter values)")
        if len(sys_.stocks) > 1:
            self._probe(st, "system_with_two_dynamic_stocks")
        if op.get("twice"):
            out2 = self._call(st, {}, n, lambda: sys_.compute())
            if out2 != "ret":
                raise Violation("compute-twice", f"second system.compute() in a row ended with {out2}", cls="compute-twice")
            self._compare(st, self._sys_results(sys_), got, "compute-twice", "second system.compute() in a row")
            self._note(st, 0, "compute")
        return out

    def _sys_results(self, sys_):
        out = {}
        for nme, f in sys_.flows.items():
            out["flow " + nme] = f.values.copy()
        for nme, s in sys_.stocks.items():
            for k, v in self._results(s).items():
                out[f"stock {nme} {k}"] = v
        return out

    # ------------------------------------------------------------------ minimisation
    def shrink(self, run):
        for k, op in enumerate(run["ops"]):
            if op.get("fault"):
                ops = [dict(o) for o in run["ops"]]
                del ops[k]["fault"]
                yield {"world": run["world"], "ops": ops}
            if op.get("twice"):
                ops = [dict(o) for o in run["ops"]]
                ops[k]["twice"] = False
                yield {"world": run["world"], "ops": ops}
        w = run["world"]
        if w["extra"]:
            w2 = _copy.deepcopy(w)
            w2["extra"] = w2["extra"][:-1]
            yield {"world": w2, "ops": run["ops"]}
        if len(w["time"]) > 3:
            w2 = _copy.deepcopy(w)
            w2["time"] = w2["time"][:-1]
            yield {"world": w2, "ops": run["ops"]}
        if len(w["stocks"]) > 1 and not any(s["share"] is not None for s in w["stocks"]):
            w2 = _copy.deepcopy(w)
            w2["stocks"] = w2["stocks"][:1]
            yield {"world": w2, "ops": run["ops"]}
        for k, op in enumerate(run["ops"]):
            f = op.get("fault")
            if f and f.get("at") and f["at"] > 1:
                for at in (1, f["at"] // 2, f["at"] - 1):
                    if 1 <= at < f["at"]:
                        ops = _copy.deepcopy(run["ops"])
                        ops[k]["fault"]["at"] = at
                        yield {"world": run["world"], "ops": ops}

    # ------------------------------------------------------------------ evidence texts
    def rule(self, prop):
        return ("seeded histories (4-14 steps) of {set driver (4 ways), set_prms (scalar / FlodymArray over a dimension subset in any order / "
                "time-varying / ndarray; optionally negative), compute (optionally twice), read sf / pdf} on every stock class x lifetime "
                "model x solver x time grid (unit, constant non-unit, uneven) x 0-2 extra dimensions, optionally two stocks sharing one "
                "lifetime-model instance, or a stock built from a StockDefinition inside an MFASystem subclass whose compute() is re-run "
                "after parameter changes; faults: ill-formed parameters, sys.settrace interrupts (MemoryError / KeyboardInterrupt) inside "
                "compute / sf / pdf / set_prms / system.compute; sweep tasks enumerate every line-event crash point of one such operation "
                "and then recompute. distinct = distinct sequence of (op, variant, outcome, fault armed, bad-parameter flag); non-trivial = "
                "at least one compute was compared with a fresh object and the stock had an earlier step in its history")

    def components(self, prop):
        return {"real": ["flodym.stocks", "flodym.lifetime_models", "flodym.stock_helper / flow_helper / mfa_system (system mode)", "scipy.stats",
                         "scipy.linalg.solve_triangular", "numpy", "pydantic"],
                "stubbed": ["the model component (generated MFASystem.compute)", "interrupts: sys.settrace line-event injector"],
                "not_run": ["file I/O", "plotting"]}

    def assumptions(self, prop):
        return ["the reference is the same real code on a freshly built object holding copies of the current driver arrays and of the current "
                "public lifetime parameters (prms); bitwise equality is demanded because both sides run the same float code on the same inputs",
                "steps that raise or are interrupted are not judged; the next compute() that returns is",
                "parameters are changed through set_prms (or, in system mode, through the system's parameters followed by the generated compute) only"]


ENGINE = StockSim()
