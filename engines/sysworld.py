"""World generation and system building for syssim: a definition program, its dimension / parameter
files on a scratch disk, and the public build paths (direct helpers, from_data_reader, from_csv, from_excel)."""

import itertools
import os

import numpy as np
import pandas as pd

from flodym import (Dimension, DimensionSet, FlodymArray, Parameter, MFASystem, MFADefinition, DimensionDefinition,
                    FlowDefinition, StockDefinition, ParameterDefinition, SimpleFlowDrivenStock, InflowDrivenDSM, StockDrivenDSM,
                    make_processes, make_empty_flows, make_empty_stocks, DataReader)
from flodym.lifetime_models import FixedLifetime, NormalLifetime, FoldedNormalLifetime, LogNormalLifetime, WeibullLifetime
from flodym.flow_naming import process_names_with_arrow, process_names_no_spaces, process_ids
from flodym.export.helper import to_valid_file_name
from flodym.data_reader import (CompoundDataReader, CSVDimensionReader, ExcelDimensionReader, CSVParameterReader, ExcelParameterReader)

LT = {"fixed": FixedLifetime, "normal": NormalLifetime, "folded": FoldedNormalLifetime, "lognormal": LogNormalLifetime,
      "weibull": WeibullLifetime}
CLS = {"simple": SimpleFlowDrivenStock, "inflow": InflowDrivenDSM, "stockdriven": StockDrivenDSM}


class MyFlowStock(SimpleFlowDrivenStock):
    """what a model author writes: a stock class of one's own, derived from a library class"""


class MyInflowDSM(InflowDrivenDSM):
    pass


class MyStockDSM(StockDrivenDSM):
    pass


SUB = {"simple": MyFlowStock, "inflow": MyInflowDSM, "stockdriven": MyStockDSM}


def cls_of(s):
    return SUB[s["cls"]] if s.get("sub") else CLS[s["cls"]]
NAMING = {"arrow": process_names_with_arrow, "no_spaces": process_names_no_spaces, "ids": process_ids}
DIMNAMES = {"t": "Technology", "a": "Alpha", "b": "Beta Region", "c": "Gamma", "e": "Element", "R": "Destination", "1": "Origin", "_": "Vintage"}
PROC_POOL = ["use", " sorting", "use phase", "waste mgmt.", "re-use (2)", "Fab/rication", "shredder & sorter", "Recycling -> out", "end of life", "market", "waste outflow", "phase market"]
STOCK_NAMES = ["in use", "landfill (old) ", "obsolete-stock", "hibernating"]
PARAM_NAMES = ["yield", "split share", " lifetime mean", "demand"]


def ref_file_name(value):
    """the documented sanitising of names into file names, written down here once more so that the worlds (and the notion of
    'names that stay distinct after sanitising') do not depend on the code under test: ASCII, lower case, everything but word
    characters, blanks and dashes removed, every blank or dash turned into one underscore, underscores and dashes stripped at the ends"""
    import re
    import unicodedata
    value = unicodedata.normalize("NFKD", str(value)).encode("ascii", "ignore").decode("ascii")
    value = re.sub(r"[^\w\s-]", "", value.lower())
    return re.sub(r"[-\s]", "_", value).strip("-_")


def _sanitised_distinct(names):
    s = [ref_file_name(n) for n in names]
    return len(set(s)) == len(s) and all(s)


def gen_sysworld(rng, small=False, blank_names=False):
    # ---- dimensions
    nt = rng.randint(3, 5)
    grid = rng.choice(["unit", "const", "uneven"])
    t = [2000 + i for i in range(nt)] if grid == "unit" else ([2000 + 5 * i for i in range(nt)] if grid == "const"
                                                                else [1990, 1995, 2000, 2010, 2030][:nt])
    tl = rng.choice(["t", "t", "y"])  # the time dimension is not always lettered 't' (the default of StockDefinition.time_letter)
    dims = [{"letter": tl, "name": "Time" if tl == "t" else "Year", "items": t, "dtype": "int"}]
    pool = "abcet" if tl == "y" else "abce"
    if not small and rng.chance(0.2):
        pool += "R1_"  # any single character is a legal dimension letter (origin '1' and destination '2', upper case, ...)
    for letter in rng.sample(pool, rng.randint(1, 2 if small else 3)):
        n = rng.randint(1, 3)
        kind = rng.weighted([("str", 4), ("int", 4), ("float", 1)])
        items = [f"{letter}{j}x" for j in range(n)] if kind == "str" else [{"a": 100, "b": 200, "c": 300, "e": 500, "t": 700, "R": 800, "1": 900, "_": 1100}[letter] + j for j in range(n)]
        if kind == "float":
            # e.g. a 'share' or 'size class' dimension; whole numbers are written without a decimal point in the files
            offset = {"a": 0.0, "b": 16.0, "c": 32.0, "e": 48.0, "t": 64.0, "R": 80.0, "1": 96.0, "_": 112.0}[letter]  # pairwise disjoint item sets across dimensions
            items = [x + offset for x in [[0.5, 1.0, 2.0], [0.25, 3.0, 7.5], [10.0, 0.125, 4.0]][(ord(letter) + n) % 3][:n]]
        if kind == "str":
            flavour = rng.weighted([("plain", 5), ("numeric_looking", 3), ("awkward", 1), ("name_like", 1), ("marked", 1)])
            if flavour == "numeric_looking":
                # a str-typed dimension whose file holds number-like cells next to text
                items = items[:1] + [str({"a": 1000, "b": 2000, "c": 3000, "e": 5000, "t": 7000, "R": 8000, "1": 9000, "_": 11000}[letter] + 50 * j)
                                     for j in range(1, n)]
                if rng.chance(0.3):
                    items = items[::-1]
            elif flavour == "awkward":
                # tokens that pandas' CSV type / NA inference rewrites unless told not to
                items = rng.sample(["NA", "01", "1e3", "nan", "None", "true", "N/A", "007"], n)
            elif flavour == "marked":
                # labels as they stand in real files: decomposed accents and the Angstrom / Ohm signs (not NFC-normal), a '#', a comma or a
                # semicolon inside a label, quotes.  They are the dimension's items exactly as written
                items = rng.sample(["Cafe\u0301 blend", "\u212bngstro\u0308m", "50 \u2126 grade", "no #1 grade", "steel, cold-rolled", 'the "good" one', "a;b"], n)
            elif flavour == "name_like":
                # an item that is the dimension's own name up to case or padding (dimension 'Waste', item 'waste'), mostly heading the file:
                # only a first cell that *equals* the name is a header
                nm = DIMNAMES[letter]
                items[0 if rng.chance(0.7) else rng.randint(0, n - 1)] = rng.choice([nm.lower(), nm.upper(), " " + nm, nm + " "])
        dims.append({"letter": letter, "name": DIMNAMES[letter], "items": items, "dtype": kind})
        if kind == "str" and flavour in ("awkward", "name_like", "marked"):
            dims[-1]["awkward"] = True
    letters = [d["letter"] for d in dims]
    # ---- processes
    npr = rng.randint(1, 3 if small else 5)
    procs = ["sysenv"] + rng.sample(PROC_POOL, npr)
    if rng.chance(0.07):
        # a process with a long descriptive name (a good hundred characters; a self-loop's file name still fits the file system's 255):
        # the names of its flows agree in their first hundred characters and differ after that
        procs[rng.randint(1, npr)] = "material recovery facility for mixed construction and demolition waste of the northern and western districts 2"
    # ---- flows
    nf = rng.randint(1, 4 if small else 8)
    naming = rng.choice(list(NAMING))
    flows, seen_names = [], []
    if rng.chance(0.05 if small else 0.08):
        # names that differ only in where the separators sit: "use phase => market" / "use => phase market" stay distinct after
        # sanitising (use_phase__market / use__phase_market) - as long as runs of separators are not collapsed
        naming = "arrow"
        for nm in ("use", "use phase", "phase market", "market"):
            if nm not in procs:
                procs.append(nm)
        npr = len(procs) - 1
        for a_, b_ in (("use phase", "market"), ("use", "phase market")):
            i, j = procs.index(a_), procs.index(b_)
            seen_names.append(NAMING["arrow"](_P(a_, i), _P(b_, j)))
            flows.append({"from": i, "to": j, "dims": rng.subset(letters, 0, len(letters)), "override": None})
        nf = max(nf, 2)
    tries = 0
    while len(flows) < nf and tries < 60:
        tries += 1
        i, j = rng.randint(0, npr), rng.randint(0, npr)
        if i == j and rng.chance(0.8):
            continue
        fd = rng.subset(letters, 0, len(letters))
        override = None
        auto = NAMING[naming](_P(procs[i], i), _P(procs[j], j))
        name = auto
        if auto in seen_names or rng.chance(0.15):
            override = f"{procs[i]} to {procs[j]} #{len(flows)}" if rng.chance(0.7) else f"{procs[j]} {len(flows)} inflow"
            if blank_names and " " not in seen_names and rng.chance(0.12):
                override = " "  # a name is a name, also when it is blank (a cell somebody cleared): it is given, not "not given"
            name = override
        if name in seen_names or not _sanitised_distinct([n_ for n_ in seen_names + [name] if n_ != " "]):
            continue
        seen_names.append(name)
        flows.append({"from": i, "to": j, "dims": fd, "override": override})
    # ---- stocks
    stocks = []
    for k in range(rng.randint(0, 2 if small else 3)):
        cls = rng.choice(list(CLS))
        others = rng.subset([l for l in letters if l != tl], 0, 2)
        stocks.append({"name": STOCK_NAMES[k], "cls": cls, "sub": rng.chance(0.15), "lt": None if cls == "simple" else rng.choice(list(LT)),
                       "solver": rng.choice(["manual", "lapack"]), "process": rng.choice([None, 0] + list(range(1, npr + 1)) * 2),
                       "dims": [tl] + others})
    # ---- parameters
    params = []
    for k in range(rng.randint(0, 2 if small else 4)):
        # parameter tables are not given awkward labels: the parameter readers rely on pandas' inference by design (C11/C12 territory)
        pdims = rng.subset([d["letter"] for d in dims if not d.get("awkward")], 1, len(letters))
        params.append({"name": PARAM_NAMES[k], "dims": pdims, "vseed": rng.randint(0, 10 ** 6),
                       "layout": {"wide": (rng.randint(0, len(pdims) - 1) if rng.chance(0.3) else None),
                                  "header": rng.choice(["names", "letters"]), "shuffle": rng.randint(0, 10 ** 6)}})
        if any(not l.isalpha() for l in pdims):
            params[-1]["layout"]["header"] = "names"  # a header cell "1" comes back from a spreadsheet as the number 1
    build = {"path": rng.weighted([("direct", 3), ("reader", 2), ("csv", 3), ("excel", 2)]),
             "dimfiles": {d["letter"]: {"orient": rng.choice(["row", "col"]), "header": rng.chance(0.5)} for d in dims},
             "sheets": rng.chance(0.6), "one_workbook": rng.chance(0.5), "flags": [rng.chance(0.3), rng.chance(0.3)],
             "dict_order": rng.randint(0, 10 ** 6), "via_readers": rng.chance(0.4)}
    return {"alias": rng.randint(0, 1), "dims": dims, "processes": procs, "flows": flows, "stocks": stocks, "params": params, "naming": naming, "build": build}


def _undefined_process(world, k):
    """a name that is not in the process list: unrelated, or something a lenient lookup might resolve anyway - the position of a
    process written as text, a name in other case, with a blank at the edge, a fragment of a name"""
    procs = world["processes"]
    last = procs[-1]
    cands = ["no such process", str(len(procs) - 1), "1", "0", last.upper() if last.upper() != last else last.lower(), last + " ", " " + last,
             last[:-1], "sysenv2", " ", ""]
    for j in range(len(cands)):
        c = cands[(k + j) % len(cands)]
        if c not in procs:
            return c
    return "no such process"


class _P:
    """minimal stand-in with the two attributes the naming functions read"""

    def __init__(self, name, id_):
        self.name, self.id = name, id_


def expected_flow_name(world, f):
    if f["override"] is not None:
        return f["override"]
    naming = world["naming"] if world["build"]["path"] == "direct" else "arrow"
    return NAMING[naming](_P(world["processes"][f["from"]], f["from"]), _P(world["processes"][f["to"]], f["to"]))


def param_values(world, p):
    shape = tuple(len(_dim(world, l)["items"]) for l in p["dims"])
    size = int(np.prod(shape)) if shape else 1
    rs = np.random.RandomState(p["vseed"] % 2 ** 31)
    return (5000.25 + 0.5 * rs.permutation(size)).reshape(shape)


def _dim(world, letter):
    return [d for d in world["dims"] if d["letter"] == letter][0]


DT = {"int": int, "str": str, "float": float, "mixed": None}


# ============================================================================= definitions
def make_definition(world, faults=()):
    """returns MFADefinition (construction itself may raise: that is one of the places where refusal may happen)"""
    fl = {f["kind"]: f for f in faults}
    alias = world.get("alias", 0)
    dim_defs = [DimensionDefinition(name=d["name"], dtype=DT[d["dtype"]] or str, **{("dim_letter" if (alias + n) % 2 else "letter"): d["letter"]})
                for n, d in enumerate(world["dims"])]
    procs = list(world["processes"])
    if "sysenv_not_first" in fl and len(procs) > 1:
        procs = [procs[1], procs[0]] + procs[2:]
    if "first_process_not_sysenv" in fl:
        # the list starts with something that is not the system environment - a fragment of its name, another spelling, nothing
        procs = [["env", "sys", "s", "Sysenv", "sysenv ", "", "system environment"][fl["first_process_not_sysenv"]["k"] % 7]] + procs[1:]
    flows = []
    for k, f in enumerate(world["flows"]):
        dl = tuple(f["dims"])
        frm, to = world["processes"][f["from"]], world["processes"][f["to"]]
        if "flow_undefined_dim" in fl and k == fl["flow_undefined_dim"]["k"] % len(world["flows"]):
            dl = dl + ("q",)
        if "flow_undefined_process" in fl and k == fl["flow_undefined_process"]["k"] % len(world["flows"]):
            to = _undefined_process(world, fl["flow_undefined_process"]["k"] // max(1, len(world["flows"])))
        if (alias + k) % 2:
            kw = {"from_process_name": frm, "to_process_name": to, "dim_letters": dl}
        else:
            kw = {"from_process": frm, "to_process": to, "dim_letters": dl}
        if f["override"] is not None:
            kw["name_override"] = f["override"]
        flows.append(FlowDefinition(**kw))
    stocks = []
    for k, s in enumerate(world["stocks"]):
        dl = tuple(s["dims"])
        kw = {"name": s["name"], "dim_letters": dl, "subclass": cls_of(s)}
        if world["dims"][0]["letter"] != "t" or (alias + k) % 2:
            kw["time_letter"] = world["dims"][0]["letter"]
        pkey = "process_name" if (alias + k) % 2 else "process"
        if s["process"] is not None:
            kw[pkey] = world["processes"][s["process"]]
        if s["lt"] is not None:
            kw["lifetime_model_class"] = LT[s["lt"]]
        elif (alias + k) % 2:
            kw["lifetime_model_class"] = None  # every field written out, as when definitions come from table records
            kw["solver"] = "manual"
        if s["cls"] == "stockdriven":
            kw["solver"] = s["solver"]
        hit = lambda name: name in fl and k == fl[name]["k"] % len(world["stocks"])
        if hit("stock_undefined_dim"):
            kw["dim_letters"] = dl + ("q",)
        if hit("stock_undefined_process"):
            kw[pkey] = _undefined_process(world, fl["stock_undefined_process"]["k"] // max(1, len(world["stocks"])))
        if hit("stock_missing_lifetime") and s["cls"] != "simple":
            kw.pop("lifetime_model_class", None)
        if hit("stock_unused_lifetime") and s["cls"] == "simple":
            kw["lifetime_model_class"] = FixedLifetime
        if hit("stock_time_not_first") and len(dl) >= 2:
            kw["dim_letters"] = (dl[1], dl[0]) + dl[2:]
        stocks.append(StockDefinition(**kw))
    params = []
    for k, p in enumerate(world["params"]):
        dl = tuple(p["dims"])
        if "param_undefined_dim" in fl and k == fl["param_undefined_dim"]["k"] % len(world["params"]):
            dl = dl + ("q",)
        params.append(ParameterDefinition(name=p["name"], dim_letters=dl))
    return MFADefinition(dimensions=dim_defs, processes=procs, flows=flows, stocks=stocks, parameters=params)


def fault_applicable(world, f):
    k = f["kind"]
    if k in FILE_FAULTS:
        if world["build"]["path"] not in ("csv", "excel"):
            return False
        if k == "missing_sheet":
            return world["build"]["path"] == "excel" and bool(world["build"]["sheets"])
        if k in ("missing_param_file", "param_row_dropped", "param_row_duplicated", "param_row_unknown", "param_file_eacces"):
            return bool(world["params"])
        return True
    if k.startswith("flow_"):
        return bool(world["flows"])
    if k == "stock_missing_lifetime":
        return bool(world["stocks"]) and world["stocks"][f["k"] % len(world["stocks"])]["cls"] != "simple"
    if k == "stock_unused_lifetime":
        return bool(world["stocks"]) and world["stocks"][f["k"] % len(world["stocks"])]["cls"] == "simple"
    if k == "stock_time_not_first":
        return bool(world["stocks"]) and len(world["stocks"][f["k"] % len(world["stocks"])]["dims"]) >= 2
    if k.startswith("stock_"):
        return bool(world["stocks"])
    if k.startswith("param_"):
        return bool(world["params"])
    if k == "sysenv_not_first":
        return len(world["processes"]) > 1
    if k in ("dimfile_2d", "missing_dim_file", "missing_param_file", "param_row_dropped", "param_row_duplicated"):
        if world["build"]["path"] not in ("csv", "excel"):
            return False
        if k.startswith("param") or k == "missing_param_file":
            return bool(world["params"])
        if k == "dimfile_2d":
            return True
        return True
    if k == "missing_sheet":
        return world["build"]["path"] == "excel" and world["build"]["sheets"]
    return True


DEF_FAULTS = ["flow_undefined_dim", "flow_undefined_process", "stock_undefined_dim", "stock_undefined_process",
              "stock_missing_lifetime", "stock_unused_lifetime", "stock_time_not_first", "param_undefined_dim", "sysenv_not_first",
              "first_process_not_sysenv"]
FILE_FAULTS = ["dimfile_2d", "missing_dim_file", "missing_param_file", "missing_sheet", "param_row_dropped", "param_row_duplicated", "param_row_unknown",
               "dim_file_eio", "param_file_eacces"]


# ============================================================================= files
def _param_frame(world, p):
    """DataFrame of a parameter in its generated layout"""
    dl = [_dim(world, l) for l in p["dims"]]
    vals = param_values(world, p)
    rows = []
    for idx in itertools.product(*[range(len(d["items"])) for d in dl]):
        rows.append([dl[k]["items"][i] for k, i in enumerate(idx)] + [float(vals[idx])])
    hdr = [d["name"] if p["layout"]["header"] == "names" else d["letter"] for d in dl]
    df = pd.DataFrame(rows, columns=hdr + ["value"])
    w = p["layout"]["wide"]
    if w is not None and len(dl) >= 2:
        df = df.pivot(index=[h for k, h in enumerate(hdr) if k != w], columns=hdr[w], values="value").reset_index()
        df.columns.name = None
    order = np.random.RandomState(p["layout"]["shuffle"] % 2 ** 31).permutation(len(df))
    return df.iloc[order].reset_index(drop=True)


def _dim_frame(d, form):
    items = [int(x) if (d["dtype"] == "float" and float(x).is_integer()) else x for x in d["items"]]
    cells = ([d["name"]] if form["header"] else []) + items
    if form["orient"] == "row":
        return pd.DataFrame([cells])
    return pd.DataFrame([[c] for c in cells])


def write_files(world, tmp, faults=(), applied=None):
    """writes dimension and parameter files; returns (dimension_files, parameter_files, dimension_sheets, parameter_sheets)"""
    fl = {f["kind"]: f for f in faults}
    path = world["build"]["path"]
    ext = ".csv" if path == "csv" else ".xlsx"
    dim_files, prm_files, dim_sheets, prm_sheets = {}, {}, {}, {}
    books = {}

    def put(df, fname, sheet, header, key=None):
        full = os.path.join(tmp, fname + ext)
        if path == "csv":
            df.to_csv(full, index=False, header=header)
        else:
            books.setdefault(full, []).append((sheet, df, header, key))
        return full

    one = world["build"]["one_workbook"] and path == "excel" and world["build"]["sheets"]
    for n, d in enumerate(world["dims"]):
        form = world["build"]["dimfiles"][d["letter"]]
        df = _dim_frame(d, form)
        if "dimfile_2d" in fl and n == fl["dimfile_2d"]["k"] % len(world["dims"]):
            df = pd.DataFrame([[d["items"][0], d["items"][-1]], [d["items"][-1], d["items"][0]]])
        fname = "dimensions" if one else f"dim_{d['letter']}"
        sheet = f"dim {d['name']}"[:30]
        dim_files[d["name"]] = put(df, fname, sheet, False, d["name"])
        dim_sheets[d["name"]] = sheet
    for n, p in enumerate(world["params"]):
        df = _param_frame(world, p)
        if "param_row_dropped" in fl and n == fl["param_row_dropped"]["k"] % len(world["params"]) and len(df) > 1:
            df = df.drop(df.index[fl["param_row_dropped"].get("row", 0) % len(df)]).reset_index(drop=True)
            if applied is not None:
                applied.add("param_row_dropped")
        if "param_row_unknown" in fl and n == fl["param_row_unknown"]["k"] % len(world["params"]) and len(df) > 0:
            # a surplus row whose first label is an item the dimension does not have
            extra = df.iloc[[fl["param_row_unknown"].get("row", 0) % len(df)]].copy()
            d0 = _dim(world, p["dims"][0] if p["layout"]["wide"] != 0 or len(p["dims"]) < 2 else p["dims"][1])
            col = d0["name"] if p["layout"]["header"] == "names" else d0["letter"]
            if col in extra.columns:
                extra[col] = {"int": 987654, "float": 987654.5, "str": "unknown_item"}[d0["dtype"]]
                df = pd.concat([df, extra], ignore_index=True)
                if applied is not None:
                    applied.add("param_row_unknown")
        if "param_row_duplicated" in fl and n == fl["param_row_duplicated"]["k"] % len(world["params"]):
            df = pd.concat([df, df.iloc[[fl["param_row_duplicated"].get("row", 0) % len(df)]]], ignore_index=True)
            if applied is not None:
                applied.add("param_row_duplicated")
        fname = "parameters" if one else f"prm_{n}"
        sheet = f"p {p['name']}"[:30]
        prm_files[p["name"]] = put(df, fname, sheet, True, p["name"])
        prm_sheets[p["name"]] = sheet
    for n_book, (full, sheets) in enumerate(books.items()):
        with pd.ExcelWriter(full, engine="openpyxl") as xw:
            if not world["build"]["sheets"]:
                # first sheet is the data, a second one holds something else: "the first sheet unless one is named".  The second one may
                # carry the very name of the dimension / parameter, and may be the tab that was selected when the file was saved
                sheet, df, header, key = sheets[0]
                style = (world["build"]["dict_order"] + n_book) % 4
                decoy = "notes"
                if style >= 2 and key and len(key) <= 31 and not any(c in key for c in "[]:*?/\\'") and key != "Sheet1":
                    decoy = key
                df.to_excel(xw, sheet_name="Sheet1", index=False, header=header)
                pd.DataFrame([["decoy", 1], ["sheet", 2]]).to_excel(xw, sheet_name=decoy, index=False, header=False)
                if style % 2:
                    xw.book.active = 1
                    for k_, ws in enumerate(xw.book.worksheets):
                        ws.sheet_view.tabSelected = (k_ == 1)
            else:
                pd.DataFrame([["decoy", 1], ["sheet", 2]]).to_excel(xw, sheet_name="notes first", index=False, header=False)
                for sheet, df, header, key in sheets:
                    df.to_excel(xw, sheet_name=sheet, index=False, header=header)
    if "missing_dim_file" in fl:
        name = world["dims"][fl["missing_dim_file"]["k"] % len(world["dims"])]["name"]
        dim_files[name] = os.path.join(tmp, "does_not_exist" + ext)
    if "missing_param_file" in fl and world["params"]:
        name = world["params"][fl["missing_param_file"]["k"] % len(world["params"])]["name"]
        prm_files[name] = os.path.join(tmp, "does_not_exist" + ext)
    if "missing_sheet" in fl:
        name = world["dims"][fl["missing_sheet"]["k"] % len(world["dims"])]["name"]
        dim_sheets[name] = "no such sheet"
    if not world["build"]["sheets"]:
        dim_sheets, prm_sheets = None, None
    return dim_files, prm_files, dim_sheets, prm_sheets


def _reorder(d, seed):
    """F6: insertion order of a dict handed to flodym"""
    if d is None:
        return None
    keys = list(d)
    order = np.random.RandomState(seed % 2 ** 31).permutation(len(keys))
    return {keys[i]: d[keys[i]] for i in order}


class MemoryReader(DataReader):
    """in-memory DataReader for the from_data_reader path"""

    def __init__(self, world):
        self.world = world

    def read_dimension(self, definition):
        d = [x for x in self.world["dims"] if x["name"] == definition.name][0]
        return Dimension(name=d["name"], letter=d["letter"], items=list(d["items"]), dtype=DT[d["dtype"]])

    def read_parameter_values(self, parameter_name, dims):
        p = [x for x in self.world["params"] if x["name"] == parameter_name][0]
        return Parameter(dims=dims, values=param_values(self.world, p), name=parameter_name)


class GenericSystem(MFASystem):
    def compute(self):
        pass


def build_system(world, tmp, faults=(), cls=GenericSystem, applied=None, definition=None, holder=None):
    """build through the path named in the world; any exception propagates to the caller.
    `definition`: reuse an existing MFADefinition object (second build from the same definitions)"""
    path = world["build"]["path"]
    if definition is None:
        definition = make_definition(world, faults)
    if path == "direct":
        dims = DimensionSet(dim_list=[Dimension(name=d["name"], letter=d["letter"], items=list(d["items"]), dtype=DT[d["dtype"]])
                                      for d in world["dims"]])
        processes = make_processes(definition.processes)
        flows = make_empty_flows(processes=processes, flow_definitions=definition.flows, dims=dims, naming=NAMING[world["naming"]])
        stocks = make_empty_stocks(processes=processes, stock_definitions=definition.stocks, dims=dims)
        params = {}
        for pd_, p in zip(definition.parameters, world["params"]):
            ds = dims.get_subset(pd_.dim_letters)
            params[pd_.name] = Parameter(dims=ds, values=param_values(world, p), name=pd_.name)
        return cls(dims=dims, parameters=params, processes=processes, flows=flows, stocks=stocks), definition
    if path == "reader":
        return cls.from_data_reader(definition, MemoryReader(world)), definition
    dim_files, prm_files, dim_sheets, prm_sheets = write_files(world, tmp, faults, applied)
    seed = world["build"]["dict_order"]
    dim_files, prm_files = _reorder(dim_files, seed), _reorder(prm_files, seed + 1)
    fl = {f["kind"]: f for f in faults}
    bad_path = None
    if "dim_file_eio" in fl:
        bad_path = (dim_files[world["dims"][fl["dim_file_eio"]["k"] % len(world["dims"])]["name"]], "EIO")
    elif "param_file_eacces" in fl and world["params"]:
        bad_path = (prm_files[world["params"][fl["param_file_eacces"]["k"] % len(world["params"])]["name"]], "EACCES")
    if bad_path is not None:
        # F4: the open() seen by pandas' I/O layer fails for this one file
        import errno as _errno
        import pandas.io.common as pic
        real_open = open

        def failing_open(file, *a, **k):
            if isinstance(file, (str, bytes, os.PathLike)) and os.fspath(file) == bad_path[0]:
                code = getattr(_errno, bad_path[1])
                if applied is not None:
                    applied.add("io_error")
                raise OSError(code, os.strerror(code), bad_path[0])
            return real_open(file, *a, **k)
        pic.open = failing_open
    try:
        am, ae = world["build"].get("flags", [False, False])
        kwf = {}
        if am:
            kwf["allow_missing_parameter_values"] = True
        if ae:
            kwf["allow_extra_parameter_values"] = True
        if world["build"].get("via_readers"):
            # the caller builds the reader objects and keeps them (holder): a later build goes through the *same* objects
            reader = None if holder is None else holder.get("reader")
            if reader is None:
                if path == "csv":
                    reader = CompoundDataReader(dimension_reader=CSVDimensionReader(dimension_files=dim_files),
                                                parameter_reader=CSVParameterReader(parameter_files=prm_files, **_only_set(am, ae, seed)))
                else:
                    reader = CompoundDataReader(
                        dimension_reader=ExcelDimensionReader(dimension_files=dim_files, dimension_sheets=_reorder(dim_sheets, seed + 2)),
                        parameter_reader=ExcelParameterReader(parameter_files=prm_files, parameter_sheets=_reorder(prm_sheets, seed + 3),
                                                              **_only_set(am, ae, seed)))
                if holder is not None:
                    holder["reader"] = reader
            return cls.from_data_reader(definition, reader), definition
        if path == "csv":
            return cls.from_csv(definition, dimension_files=dim_files, parameter_files=prm_files, **kwf), definition
        return _from_excel(cls, definition, dim_files, prm_files, dim_sheets, prm_sheets, seed, kwf), definition
    finally:
        if bad_path is not None:
            del pic.open


def _only_set(am, ae, seed):
    """the reader switches as a caller writes them: one that is off is usually not mentioned"""
    kw = {}
    if am or seed % 3 == 0:
        kw["allow_missing_values"] = bool(am)
    if ae or seed % 3 == 1:
        kw["allow_extra_values"] = bool(ae)
    return kw


def _from_excel(cls, definition, dim_files, prm_files, dim_sheets, prm_sheets, seed, kwf):
    return cls.from_excel(definition, dimension_files=dim_files, parameter_files=prm_files, **kwf,
                          dimension_sheets=_reorder(dim_sheets, seed + 2), parameter_sheets=_reorder(prm_sheets, seed + 3))
