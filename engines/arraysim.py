"""arraysim - histories over a shared pool of arrays; oracles for C05, C13, C15 (DESIGN.md 5.1)."""

import copy as _copy

import numpy as np

from simkit.engine import Engine, jhash
from simkit.kernel import (Rng, Violation, dims_sig, exc_class, same_as_snap, shape_invariant_ok, snap_array,
                           values_equal, vdig)
from engines.arrayworld import gen_world, marginal_by_label, region_indices, region_letters, wrong_shapes
from engines.arraysim_exec import HANDLERS, Info, State

from flodym import Dimension, FlodymArray

PROBE_DIM = dict(name="ProbeDim", letter="Q", items=["q"])


# ============================================================================= oracles
def _cls(clause, info):
    return clause + ":" + info.kind.split(":")[0]


def check_shape_invariant(st, arrays, info):
    st.cnt("shape-invariant", len(arrays))
    for a in arrays:
        if not shape_invariant_ok(a):
            v = a.values
            raise Violation("shape-invariant",
                            f"after {info.kind} ({info.outcome}) an array over {a.dims.letters} has values of "
                            f"{'shape ' + str(v.shape) if isinstance(v, np.ndarray) else 'type ' + type(v).__name__}",
                            cls=_cls("shape-invariant", info), op=info.kind, outcome=info.outcome)


def oracle_c13(st, info, snaps):
    if info.must_raise and info.outcome == "ret":
        st.cnt(info.must_raise)
        raise Violation(info.must_raise, f"{info.kind}: an ill-formed call was accepted", cls=_cls(info.must_raise, info), op=info.kind)
    if info.must_raise and info.outcome == "raise":
        st.cnt(info.must_raise)
    if info.outcome == "raise":
        st.cnt("failed-call-atomic")
        st.probe("raised_" + info.kind.split(":")[0])
        for a, s in list(snaps) + list(info.extra_snaps):
            if not same_as_snap(s, a):
                raise Violation("failed-call-atomic",
                                f"{info.kind} raised {exc_class(info.exc)} but an array over {s[0] and [d[0] for d in s[0]]} was changed",
                                cls=_cls("failed-call-atomic", info), op=info.kind)
    arrays = [a for a, _ in snaps] + list(info.results) + [a for a, _ in info.extra_snaps]
    if info.stock is not None:
        arrays += [info.stock.stock, info.stock.inflow, info.stock.outflow]
    check_shape_invariant(st, arrays, info)


def _write_probe(st, info, r, sources):
    """write into the result -> no source changes; write into a source -> the result does not change"""
    if not isinstance(r.values, np.ndarray):
        return
    for s in sources:
        if s is r or not isinstance(s.values, np.ndarray):
            continue
        st.cnt("result-independent")
        if np.shares_memory(r.values, s.values):
            raise Violation("result-independent", f"{info.kind}: the result shares memory with an operand",
                            cls=_cls("result-independent", info), op=info.kind)
        keep_r, keep_s = r.values.copy(), s.values.copy()
        r.values[...] = 777.0
        bad = not values_equal(keep_s, s.values)
        r.values[...] = keep_r
        if bad:
            raise Violation("result-independent", f"{info.kind}: writing into the result changed an operand",
                            cls=_cls("result-independent", info), op=info.kind)
        s.values[...] = 555.0
        bad = not values_equal(keep_r, r.values)
        s.values[...] = keep_s
        if bad:
            raise Violation("result-independent", f"{info.kind}: writing into an operand changed the result",
                            cls=_cls("result-independent", info), op=info.kind)


def _dims_probe(st, info, r, sources):
    """sources: list of DimensionSet objects (operand dims, dims handed to a constructor)"""
    probe = Dimension(**PROBE_DIM)
    for S in sources:
        st.cnt("dims-independent")
        if r.dims is S:
            raise Violation("dims-independent", f"{info.kind}: the new array stores the very DimensionSet object of its source",
                            cls=_cls("dims-independent", info), op=info.kind)
        before_S, before_r = dims_sig(S), dims_sig(r.dims)
        if "Q" in before_r or "Q" in [d[0] for d in before_S]:
            continue
        r.dims.append(probe, inplace=True)
        bad = dims_sig(S) != before_S
        r.dims.drop("Q", inplace=True)
        if bad:
            raise Violation("dims-independent", f"{info.kind}: editing the new array's dimension set in place changed its source's",
                            cls=_cls("dims-independent", info), op=info.kind)
        S.append(probe, inplace=True)
        bad = dims_sig(r.dims) != before_r
        S.drop("Q", inplace=True)
        if bad:
            raise Violation("dims-independent", f"{info.kind}: editing the source's dimension set in place changed the new array's",
                            cls=_cls("dims-independent", info), op=info.kind)
        if dims_sig(S) != before_S or dims_sig(r.dims) != before_r:
            raise Violation("dims-independent", f"{info.kind}: dimension sets did not return to their state after the probe was undone",
                            cls=_cls("dims-independent", info), op=info.kind)


def oracle_c15(st, info, snaps):
    if info.outcome == "interrupt":
        return
    if not info.inplace:
        st.cnt("inputs-unchanged")
        for a, s in snaps:
            if not same_as_snap(s, a):
                raise Violation("inputs-unchanged", f"{info.kind} ({info.outcome}) changed an existing array over {[d[0] for d in s[0]]}",
                                cls=_cls("inputs-unchanged", info), op=info.kind)
        for label, obj, snap, same in info.raw:
            if not same(snap, obj):
                raise Violation("inputs-unchanged", f"{info.kind} ({info.outcome}) changed the {label} it was given",
                                cls=_cls("inputs-unchanged", info), op=info.kind, what=label)
    if info.inplace:
        # an in-place operation changes values of its target - never the dimension set of any array
        st.cnt("dims-untouched-by-inplace-op")
        for a, s_ in snaps:
            if dims_sig(a.dims) != s_[0]:
                raise Violation("inputs-unchanged", f"{info.kind} ({info.outcome}) changed the dimension set (labels) of an array over {[d[0] for d in s_[0]]}",
                                cls=_cls("inputs-unchanged", info), op=info.kind, what="dims")
    if info.outcome != "ret":
        return
    for r in info.results:
        if any(r is a for a, _ in snaps):
            if info.indep:
                raise Violation("result-independent", f"{info.kind}: returned one of its operands",
                                cls=_cls("result-independent", info), op=info.kind)
            continue
        if info.indep:
            _write_probe(st, info, r, info.inputs)
            for nd in info.indep_raw:
                st.cnt("result-independent")
                if isinstance(r.values, np.ndarray) and np.shares_memory(r.values, nd):
                    raise Violation("result-independent", f"{info.kind}: the result shares memory with the ndarray it was given as fill value",
                                    cls=_cls("result-independent", info), op=info.kind)
        srcs = [a.dims for a in info.inputs] + list(info.dims_passed)
        _dims_probe(st, info, r, srcs)
    if info.c05 and info.c05.get("nd") is not None:
        _nd_copied(st, info, "assigned-ndarray-copied")


def _nd_copied(st, info, clause):
    nd = info.c05["nd"]
    t = info.target
    if info.outcome != "ret" or not isinstance(t.values, np.ndarray):
        return
    st.cnt(clause)
    keep = t.values.copy()
    ndkeep = nd.copy()
    nd[...] = 999.0
    bad = not values_equal(keep, t.values)
    nd[...] = ndkeep
    if bad:
        raise Violation(clause, f"{info.kind}: changing the assigned ndarray afterwards changed the target",
                        cls=clause, op=info.kind)


def oracle_c05(st, info, snaps):
    c = info.c05
    if c is None or info.outcome == "interrupt":
        return
    t = info.target
    ki = c["ki"]
    tsig, tvals, _, tshape = c["tsnap"]
    form = ki.form + ("+subset" if ki.has_subset else "") + ("+list" if ki.has_list else "")
    # (a) dims and shape
    st.cnt("target-dims-kept")
    if dims_sig(t.dims) != tsig or not isinstance(t.values, (np.ndarray, np.generic)) or t.values.shape != tshape:
        raise Violation("target-dims-kept", f"assignment ({c['rhs_kind']} source, key form {form}, {info.outcome}) changed the "
                        f"target's dimensions or shape: shape now {getattr(t.values, 'shape', None)} was {tshape}",
                        cls="target-dims-kept:" + c["rhs_kind"], rhs=c["rhs_kind"], form=form)
    if not ki.wellformed:
        return
    region = region_indices(tshape, ki.sel)
    rset = set(region)
    # (b) outside the region
    st.cnt("outside-region-kept")
    import itertools
    for idx in itertools.product(*[range(n) for n in tshape]):
        if idx not in rset:
            a, b = tvals[idx], t.values[idx]
            if not (a == b or (a != a and b != b)):
                raise Violation("outside-region-kept", f"entry {idx} outside the addressed region changed from {a} to {b} "
                                f"({c['rhs_kind']} source, key form {form})", cls="outside-region-kept:" + c["rhs_kind"], form=form)
    kind = c["rhs_kind"]
    if not hasattr(st, "own_int"):
        st.own_int = []
    if kind in ("num", "arr") and info.outcome == "ret" and c["tsnap"][2] == "float64" and t.values.dtype != np.float64:
        # a number or a FlodymArray source never asks for another element type: if the float target is integer typed now, that is
        # flodym's doing, and what it later does to fractional values is not excused as "the caller's integer array"
        st.own_int.append(t)
        st.probe("float_target_retyped_by_number_or_array_source")
    callers_type = t.values.dtype != np.float64 and not any(x is t for x in st.own_int)
    if info.outcome == "raise" and c["tsnap"][2] != "float64" and kind in ("num", "arr") and not any(x is t for x in st.own_int):
        return  # a value that cannot be cast into an integer / float32 target (NaN, inf, overflow): not defined by the property
    if kind == "num":
        st.cnt("number-fills-region")
        if info.outcome != "ret":
            raise Violation("number-fills-region", f"assigning a number raised {exc_class(info.exc)} (key form {form})",
                            cls="number-fills-region", form=form)
        for idx in region:
            with np.errstate(all="ignore"):
                lossy = callers_type and float(np.array(c["rhs"]).astype(t.values.dtype)) != c["rhs"]
            if lossy:
                continue
            if t.values[idx] != c["rhs"]:
                raise Violation("number-fills-region", f"entry {idx} of the region is {t.values[idx]}, not {c['rhs']}",
                                cls="number-fills-region", form=form)
        return
    if kind == "nd":
        if ki.form == "ellipsis":
            if c.get("nd_wrong"):
                st.cnt("ndarray-exact-shape")
                if info.outcome == "ret":
                    raise Violation("ndarray-exact-shape", f"whole-array assignment accepted an ndarray of shape {c['nd'].shape} "
                                    f"for a target of shape {tshape}", cls="ndarray-exact-shape")
            else:
                st.cnt("ndarray-exact-shape")
                if info.outcome != "ret":
                    raise Violation("ndarray-exact-shape", f"whole-array assignment of a correctly shaped ndarray raised {exc_class(info.exc)}",
                                    cls="ndarray-exact-shape")
                if np.shape(t.values) != c["nd_snap"].shape or not np.array_equal(np.asarray(c["nd_snap"], dtype=float), np.asarray(t.values, dtype=float)):
                    raise Violation("ndarray-exact-shape", "whole-array assignment of an ndarray did not store its entries",
                                    cls="ndarray-exact-shape")
        _nd_copied(st, info, "assigned-ndarray-copied")
        return
    # FlodymArray source
    sdims, svals, _, _ = c["rhs_snap"]
    if not isinstance(svals, np.ndarray) or svals.dtype.kind not in "fiub" or getattr(t.values, "dtype", np.dtype(float)).kind not in "fiub":
        return  # arrays of objects / text (only a defective flodym lets them into the pool) are not summed by the reference
    tdims = list(tsig)
    L = region_letters(tdims, ki.sel)
    sletters = [d[0] for d in sdims]
    lacking = [l for l, _ in L if l not in sletters]
    if lacking:
        st.cnt("missing-dim-rejected")
        st.fault("source_lacks_dimension")
        if info.outcome == "ret":
            raise Violation("missing-dim-rejected", f"a source over {sletters} lacking {lacking} of the region's dimensions "
                            f"{[l for l, _ in L]} was accepted", cls="missing-dim-rejected", form=form)
        return
    if ki.has_list:
        # item lists: the region keeps the dimension.  Only two things are asserted: a source lacking a region dimension is
        # refused (above), and *if* the assignment returns while the list names all items in the dimension's own order, the
        # entries are the by-label sums.  Everything else about list keys with an array source is left open.
        if info.outcome != "ret":
            return
        for d, sl in zip(tdims, ki.sel):
            if sl is not None and sl[0] == "list" and list(sl[1]) != list(range(len(d[2]))):
                return
        st.probe("full_list_key_with_array_source")
    # items of the common letters must agree (same universe); otherwise the property is silent
    for l, items in L:
        sd = sdims[sletters.index(l)]
        if list(sd[2]) != list(items):
            return
    st.cnt("source-summed-by-label")
    if len(sletters) > len(L):
        st.probe("surplus_dimension_source")
    if [l for l in sletters if l in [x for x, _ in L]] != [x for x, _ in L]:
        st.probe("permuted_source")
    if ki.has_subset:
        st.probe("subset_dimension_key")
    selpos = [i for i, s in enumerate(ki.sel) if s is not None]
    if selpos and any(ki.sel[i] is None for i in range(selpos[0], selpos[-1] + 1)) and ki.has_subset and \
            any(s is not None and s[0] == "item" for s in ki.sel):
        st.probe("item_and_subset_separated_by_kept_dim")
    if len(region) == 1:
        st.probe("single_entry_region")
    tags = dict(form=form, n_subset=sum(1 for s in ki.sel if s is not None and s[0] == "subset"),
                n_item=sum(1 for s in ki.sel if s is not None and s[0] == "item"))
    if info.outcome != "ret":
        raise Violation("source-summed-by-label", f"assignment of a source over {sletters} to a region over {[l for l, _ in L]} "
                        f"(key form {form}) raised {exc_class(info.exc)}", cls="source-summed-by-label", **tags)
    marg = marginal_by_label(sdims, svals, [l for l, _ in L])
    exact = bool(np.all(np.isfinite(svals)) and np.all(svals == np.round(svals)) and np.max(np.abs(svals), initial=0) < 2 ** 40)
    scale = float(np.max(np.abs(svals), initial=0)) if np.all(np.isfinite(svals)) else None
    if scale is None:
        return
    if svals.dtype.kind in "iu" and float(np.sum(np.abs(svals.astype(np.float64)))) >= 2.0 ** 62:
        # an integer typed source whose sums leave the int64 range (products of repeated ** on integer arrays): integer overflow is
        # numpy's arithmetic, not something the property defines
        st.probe("integer_source_near_overflow_not_judged")
        return
    kept = [i for i, s in enumerate(ki.sel) if s is None or s[0] != "item"]
    for idx in region:
        lab = []
        for p in kept:
            lab.append(tdims[p][2][idx[p]])
        want = marg[tuple(lab)]
        with np.errstate(all="ignore"):
            lossy = callers_type and float(np.array(want).astype(t.values.dtype)) != want
        if lossy:
            continue  # lossy cast into an integer / float32 target: the property does not define it
        if callers_type and t.values.dtype.kind in "iu" and not exact:
            continue  # a float sum that is whole only up to rounding noise is truncated by an integer target (1.9999999999999998 -> 1)
        got = float(t.values[idx])
        rtol = 1e-9 if svals.dtype == np.float64 else 1e-4  # a float32 source is summed in float32
        ok = (got == want) if (exact and svals.dtype != np.float32) else (abs(got - want) <= rtol * max(1.0, scale * svals.size))
        if not ok:
            raise Violation("source-summed-by-label", f"region entry {idx} (labels {lab}) is {got}, the by-label sum of the source is {want} "
                            f"(source over {sletters}, key form {form})", cls="source-summed-by-label", **tags)


ORACLES = {"C05": oracle_c05, "C13": oracle_c13, "C15": oracle_c15}


# ============================================================================= generation
def gen_key(rng, arr, allow_list, f1p):
    dims = list(arr.dims)
    nd = len(dims)
    form = rng.weighted([("ellipsis", 3), ("bare", 2), ("tuple", 2), ("dict_letter", 5), ("dict_name", 2), ("dict_mixed", 2)])
    sel = []
    if nd:
        nsel = rng.randint(1, min(nd, 3))
        for p in rng.sample(range(nd), nsel):
            kind = rng.weighted([("item", 5), ("subset", 6), ("list", 2 if allow_list else 0)])
            if kind == "item":
                sel.append([p, "item", rng.randint(0, 5)])
            elif kind == "subset":
                sel.append([p, "subset", rng.randint(0, 3)])
            else:
                sel.append([p, "list", list(range(6)) if rng.chance(0.4) else [rng.randint(0, 5) for _ in range(rng.randint(1, 3))]])
    spec = {"form": form, "sel": sel, "list_form": rng.weighted([("list", 4), ("tuple", 2), ("nparray", 1), ("iterator", 1)]), "np_items": rng.chance(0.15)}
    if rng.chance(f1p):
        spec["f1"] = rng.choice(["unknown_item", "slice_key", "not_subset"])
    return spec


def gen_dims(rng, st, kmin=0, kmax=4):
    return rng.subset(range(len(st.D)), kmin, kmax)


def gen_shape_fault(rng, p):
    if rng.chance(p):
        return rng.choice(["transposed", "lead1", "trail1", "smaller", "flat", "zerod", "ones", "bigger", "keepdim1", "one", "two"])
    return None


def gen_op(rng, st, cfg):
    kind = rng.weighted(cfg["mix"])
    fp = cfg["fault_p"]
    s = rng.randint(0, 15)
    if kind == "mk" or not st.pool:
        via = rng.weighted([("ctor_none", 2), ("ctor_nd", 6), ("ctor_num", 1), ("ctor_int", cfg.get("ints", 0)), ("ctor_subclass", 1), ("superset", 2), ("full", 1), ("full_nd", 1),
                            ("full_like", 2), ("scalar", 1), ("copy", 3)])
        if not st.pool and via in ("copy", "full_like"):
            via = "ctor_nd"
        op = {"op": "mk", "via": via, "dims": gen_dims(rng, st), "vseed": rng.randint(0, 10 ** 6), "src": s,
              "num": rng.randint(-3, 9), "take": rng.randint(0, 4), "rot": rng.randint(0, 3), "fill_nd": rng.chance(0.4)}
        op["mem"] = rng.weighted([("c", 5), ("fortran", 2), ("reversed", 1), ("strided", 1)])
        if via in ("superset", "full") and rng.chance(fp):
            op["dup"] = rng.choice(["letter", "name"])
        if via in ("ctor_nd", "full_nd"):
            sf = gen_shape_fault(rng, fp)
            if sf:
                op["shape_fault"] = sf
        return op
    if kind == "arith":
        f = rng.weighted(cfg["arith"])
        r = rng.randint(0, 15) if rng.chance(0.8) else {"num": rng.randint(-2, 5)}
        return {"op": "arith", "f": f, "l": s, "r": r}
    if kind == "reduce":
        f = rng.weighted([("sum_to", 4), ("sum_over", 4), ("cast_to", 4), ("shares", cfg["nonint"]), ("cumsum", 1), ("apply", 1)])
        op = {"op": "reduce", "f": f, "s": s, "dims": [rng.randint(0, 5) for _ in range(rng.randint(0, 4))],
              "form": rng.choice(["letter", "name", "dimobj"]), "extra": gen_dims(rng, st, 0, 3), "rot": rng.randint(0, 4)}
        if f == "cast_to" and rng.chance(fp):
            op["f1"] = "missing_dim"
        return op
    if kind == "slice":
        return {"op": "slice", "s": s, "key": gen_key(rng, st.slot(s), rng.chance(fp), fp)}
    if kind == "setitem":
        t = st.slot(s)
        key = gen_key(rng, t, True, fp * 0.5)
        how = rng.weighted([("arr", 7), ("num", 2), ("nd", 3)])
        if how == "num":
            rhs = {"num": rng.randint(-3, 9)}
        elif how == "nd":
            rhs = {"nd": {"vseed": rng.randint(0, 10 ** 6), "dtype": rng.weighted([("float64", 5), ("int64", 2), ("float32", 1)]),
                          "frac": rng.chance(0.2)}}
            sf = gen_shape_fault(rng, fp * 2)
            if sf:
                rhs["nd"]["shape_fault"] = sf
        else:
            sub = rng.weighted([("fresh_fit", 5), ("ref", 4), ("ref_slice", 2), ("self_slice", 1)])
            if sub == "fresh_fit":
                # a source that has the region's dimensions (plus surplus ones, shuffled) - or lacks one
                from engines.arrayworld import build_key
                ki = build_key(key, t, st.D, st.OF)
                need = []
                for d, sl in zip(list(t.dims), ki.sel):
                    if sl is None:
                        need.append(d.letter)
                    elif sl[0] == "subset":
                        need.append(sl[2].letter)
                    elif sl[0] == "list":
                        need.append(d.letter)
                idxs = [st.LET.index(l) for l in need if l in st.LET]
                extra = [i for i in gen_dims(rng, st, 0, 2) if st.LET[i] not in need]
                if idxs and rng.chance(fp):
                    idxs = idxs[1:]
                rhs = {"fresh": {"dims": rng.shuffled(idxs + extra), "vseed": rng.randint(0, 10 ** 6)}}
            elif sub == "ref":
                rhs = {"ref": rng.randint(0, 15)}
            elif sub == "ref_slice":
                r = rng.randint(0, 15)
                rhs = {"ref": r, "slice": gen_key(rng, st.slot(r), False, 0)}
            else:
                rhs = {"ref": s, "slice": gen_key(rng, t, False, 0)}
        return {"op": "setitem", "t": s, "key": key, "rhs": rhs}
    if kind == "set_values":
        if rng.chance(0.15):
            return {"op": "set_values", "t": s, "num": rng.randint(-3, 9)}
        if rng.chance(fp * 0.5):
            return {"op": "set_values", "t": s, "unconvertible": rng.choice(["object", "text"]), "via_setitem": rng.chance(0.5), "vseed": rng.randint(0, 10 ** 6)}
        op = {"op": "set_values", "t": s, "vseed": rng.randint(0, 10 ** 6), "mem": rng.weighted([("c", 5), ("fortran", 2), ("reversed", 1), ("strided", 1)])}
        sf = gen_shape_fault(rng, fp * 2)
        if sf:
            op["shape_fault"] = sf
        return op
    if kind == "inplace_unary":
        return {"op": "inplace_unary", "t": s, "f": rng.choice(["abs", "sign", "cumsum"]), "dim": rng.randint(0, 4)}
    if kind == "df":
        mode = rng.choice(["to_df", "from_df", "set_from_df"])
        op = {"op": "df", "s": s, "mode": mode, "index": rng.chance(0.5), "sparse": rng.chance(0.3), "t": rng.randint(0, 15),
              "shuffle": rng.chance(0.5), "vseed": rng.randint(0, 10 ** 6), "row": rng.randint(0, 50)}
        if rng.chance(0.3):
            op["wide"] = rng.randint(0, 4)
        op["style"] = {"letters": rng.chance(0.4), "omit_single": rng.chance(0.5), "intvals": rng.chance(0.4), "index": rng.chance(0.3),
                       "wide": rng.randint(0, 4) if rng.chance(0.25) else None}
        if mode != "to_df" and rng.chance(fp * 2):
            op["damage"] = rng.choice(["drop_row", "dup_row", "nan"])
        return op
    if kind == "valq":
        return {"op": "valq", "f": rng.weighted([("sum_values", 1), ("sum_values_over", 3), ("sum_values_to", 3), ("cast_values_to", 3), ("items_where", 2),
                                                 ("describe", 1), ("stock_balance", 1), ("check_stock_balance", 1), ("cohort_tables", 1), ("stock_str", 1)]),
                "s": s, "k": rng.randint(0, 3), "dims": [rng.randint(0, 5) for _ in range(rng.randint(0, 4))], "form": rng.choice(["letter", "name", "dimobj"]),
                "extra": gen_dims(rng, st, 0, 3), "rot": rng.randint(0, 4), "num": rng.randint(-2, 6)}
    if kind == "split":
        return {"op": "split", "s": s, "dim": rng.randint(0, 4)}
    if kind == "stack":
        return {"op": "stack", "s": s, "dim": rng.randint(0, 4)}
    if kind == "plot":
        if rng.chance(0.3):
            return {"op": "poke", "s": rng.randint(0, 15), "entry": rng.randint(0, 10 ** 6)}
        return {"op": "plot", "s": rng.randint(0, 15), "chart": rng.choice(["line", "area", "scatter"]), "by_name": rng.chance(0.5),
                "backend": rng.weighted([("pyplot", 4), ("plotly", 1)])}
    if kind == "stock_convert":
        return {"op": "stock_convert", "k": rng.randint(0, 3), "how": rng.choice(["to_stock_type", "stock_stack"]),
                "cls": rng.choice(["simple", "inflow", "stockdriven"]), "dim": rng.randint(0, 5), "same_class_bad_kw": rng.chance(0.2)}
    if kind == "system":
        return {"op": "system", "then": rng.choice(["build", "dict_numpy", "dict_pandas", "new_array", "check", "check_twice", "relative"])}
    if kind == "stock_compute" and rng.chance(0.15):
        return {"op": "stock_poison", "k": rng.randint(0, 3)}
    if kind == "stock_compute":
        return {"op": "stock_compute", "k": rng.randint(0, 3), "prms": rng.weighted([("keep", 2), ("good", 3), ("bad", 2), ("singular_last", 2)])}
    if kind == "lifetime":
        def prm():
            how = rng.weighted([("num", 2), ("ref", 3), ("fresh", 3), ("twin_same_letters", 1), ("nd", 2)])
            if how == "num":
                return {"how": "num"}
            if how == "nd":
                return {"how": "nd", "vseed": rng.randint(0, 10 ** 6), "shape_fault": rng.choice([None, "transposed", "bigger", "flat", "smaller", "one"])}
            if how == "twin_same_letters":
                return {"how": how, "pos": rng.randint(0, 3), "more": rng.chance(0.5), "vseed": rng.randint(0, 10 ** 6)}
            if how == "ref":
                return {"how": "ref", "slot": rng.randint(0, 15)}
            return {"how": "fresh", "dims": gen_dims(rng, st, 0, 3), "vseed": rng.randint(0, 10 ** 6)}
        return {"op": "lifetime", "cls": rng.choice(["fixed", "normal", "weibull", "lognormal"]), "dims": gen_dims(rng, st, 0, 3),
                "prm": [prm(), prm()], "via": rng.choice(["ctor", "set_prms"])}
    if kind == "stock":
        op = {"op": "stock", "cls": rng.choice(["simple", "inflow", "stockdriven"]), "dims": gen_dims(rng, st, 0, 3), "solver": rng.choice(["manual", "lapack"]),
              "vseed": rng.randint(0, 10 ** 6), "lt": rng.weighted([("class", 3), ("instance", 2), ("instance_twin", 1), ("instance_other", 1 if rng.chance(fp) else 0)])}
        for role in ("stock", "inflow", "outflow"):
            if rng.chance(0.5):
                op[role] = "ok" if rng.chance(0.8) else "other_items"
        if rng.chance(fp * 2):
            f1 = rng.choice(["time_not_first", "other_dims", "fewer_dims", "twin_dims"])
            if f1 == "time_not_first":
                op["f1"] = f1
            else:
                op[rng.choice(["stock", "inflow", "outflow"])] = f1
        return op
    raise AssertionError(kind)


def gen_cfg(rng, prop):
    base = {"mk": 5, "arith": 5, "reduce": 4, "slice": 5, "setitem": 6, "set_values": 3, "inplace_unary": 1, "df": 2,
            "split": 1, "stack": 1, "stock": 2, "lifetime": 1, "stock_compute": 1, "system": 1, "stock_convert": 1, "plot": 0, "valq": 1}
    if prop == "C05":
        base.update({"setitem": 16, "slice": 4, "stock": 0, "lifetime": 0, "stock_compute": 0, "system": 0, "stock_convert": 0, "df": 2.5, "set_values": 2})
    elif prop == "C15":
        base.update({"slice": 9, "arith": 8, "reduce": 6, "mk": 7, "system": 3, "lifetime": 2, "plot": 1.5, "valq": 4})
    elif prop == "C13":
        base.update({"set_values": 6, "stock": 5, "lifetime": 3, "stock_compute": 4, "mk": 7})
    kinds = list(base)
    off = rng.subset(kinds, 0, 4)
    for k in off:
        if k != "mk":
            base[k] = 0
    nonint = 0 if (prop == "C05" and rng.chance(0.8)) else 1
    arith = [("add", 3), ("sub", 3), ("mul", 3), ("min", 1), ("max", 1), ("neg", 1), ("abs", 1), ("absm", 1), ("sign", 1), ("absm_kw", 1), ("sign_pos", 1),
             ("radd", 1), ("rsub", 1), ("rmul", 1), ("div", nonint), ("pow", nonint), ("rdiv", nonint)]
    return {"mix": [(k, w) for k, w in base.items() if w > 0], "fault_p": rng.choice([0.0, 0.1, 0.3]), "arith": arith,
            "ints": rng.choice([0, 0, 2]),
            "nonint": nonint, "n_ops": rng.randint(6, 40)}


# ============================================================================= engine
class ArraySim(Engine):
    NAME = "arraysim"
    LEVEL = {"C05": "exploration", "C13": "fault_enumeration", "C15": "exploration"}

    def tasks(self, prop, tier, seed):
        n = {"quick": 8000, "thorough": 150000}[tier]
        tasks = [{"kind": "hist", "idx": k} for k in range(n)]
        if prop == "C13":
            ns = {"quick": 300, "thorough": 8000}[tier]
            tasks += [{"kind": "sweep", "idx": k} for k in range(ns)]
        return tasks

    def budget(self, prop, tier):
        return 300 if tier == "quick" else 3000

    # -- a task = generate while executing (ops are chosen looking at the real pool), record the op list
    def run_task(self, task, prop, seed, tier):
        rng = Rng(self.NAME, prop, seed, task["kind"], task["idx"])
        world = gen_world(rng, same_name=(prop == "C05" and rng.chance(0.2)))
        cfg = gen_cfg(rng, prop)
        run = {"world": world, "ops": []}
        res = self._execute(run, prop, gen=(rng, cfg))
        if task["kind"] == "sweep" and not res.get("violation"):
            res = self._sweep(run, prop, rng, res, tier)
        if res.get("violation") and "run" not in res:
            r = dict(run)
            r["task"] = {k: v for k, v in task.items() if k != "keep"}
            res["run"] = r
        if task.get("keep"):
            res["sample"] = {"task": {k: v for k, v in task.items() if k != "keep"}, "run": run}
        return res

    def _sweep(self, run, prop, rng, base, tier):
        """F2: every line-event crash point of one mutating operation of this history"""
        cands = [i for i, op in enumerate(run["ops"]) if op["op"] in ("setitem", "set_values", "inplace_unary", "mk", "stock", "stock_compute")
                 or (op["op"] == "df" and op["mode"] != "to_df")]
        if not cands:
            return base
        j = rng.choice(cands)
        flavour = rng.choice(["mem", "kbd"])
        probe = _copy.deepcopy(run)
        probe["ops"][j]["fault"] = {"kind": "interrupt", "at": None, "flavour": flavour}
        res0 = self._execute(probe, prop)
        n = res0.get("line_counts", {}).get(j, 0)
        points = list(range(1, n + 1))
        cap = 40 if tier == "quick" else 400
        exhaustive = len(points) <= cap
        if not exhaustive:
            points = sorted(rng.sample(points, cap))
        agg = base
        agg["probes"] = dict(agg.get("probes", {}))
        agg["faults"] = dict(agg.get("faults", {}))
        agg["probes"]["crash_points_enumerated"] = agg["probes"].get("crash_points_enumerated", 0) + len(points)
        if exhaustive and n:
            agg["probes"]["ops_with_all_crash_points_enumerated"] = agg["probes"].get("ops_with_all_crash_points_enumerated", 0) + 1
        for k in points:
            rk = _copy.deepcopy(run)
            rk["ops"][j]["fault"] = {"kind": "interrupt", "at": k, "flavour": flavour}
            r = self._execute(rk, prop)
            for name, c in r.get("faults", {}).items():
                if name.startswith("interrupt"):
                    agg["faults"][name] = agg["faults"].get(name, 0) + c
            agg["steps"] += r["steps"]
            if r.get("violation"):
                r["run"] = rk
                r["run"]["task"] = None
                return r
        agg["sig"] = jhash([agg["sig"], "sweep", run["ops"][j]["op"], n])
        return agg

    def execute(self, run, prop):
        return self._execute(run, prop)

    def _execute(self, run, prop, gen=None):
        st = State(run["world"])
        oracle = ORACLES[prop]
        violation = None
        steps = 0
        n = 0
        while True:
            if gen is not None:
                if n >= gen[1]["n_ops"]:
                    break
                op = gen_op(gen[0], st, gen[1])
                run["ops"].append(op)
            else:
                if n >= len(run["ops"]):
                    break
                op = run["ops"][n]
            steps += 1
            st.cur = n
            st.log.add("invoke", step=n, op=op)
            try:
                self._step(st, op, oracle, n)
            except Violation as v:
                violation = {"clause": v.clause, "step": n, "detail": v.detail, "tags": v.tags}
                st.log.add("violation", step=n, clause=v.clause)
                break
            n += 1
        nontrivial = st.mutations > 0 and sum(st.clauses.values()) > 0
        return {"violation": violation, "digest": st.log.digest(), "steps": steps, "faults": st.faults, "probes": st.probes,
                "clauses": st.clauses, "sig": jhash(st.sig), "nontrivial": bool(nontrivial), "states": sorted(st.states),
                "line_counts": st.line_counts}

    def _step(self, st, op, oracle, n):
        op = dict(op)
        op["_n"] = n
        reach = st.reachable()
        snaps = [(a, snap_array(a)) for a in reach]
        info = Info()
        HANDLERS[op["op"]](st, op, info)
        if info.outcome == "skip":
            st.log.add("skip", step=n)
            return
        st.log.add("outcome", step=n, outcome=info.outcome, exc=exc_class(info.exc) if info.exc is not None else None,
                   fired=info.fired, opkind=info.kind)
        notarr = [r for r in info.results if not isinstance(r, FlodymArray)]
        if notarr:
            # an operation documented to return an array handed back something else (None, a bare ndarray)
            info.results = [r for r in info.results if isinstance(r, FlodymArray)]
            if oracle is oracle_c13:
                raise Violation("shape-invariant", f"{info.kind} returned {type(notarr[0]).__name__} instead of an array",
                                cls="shape-invariant:" + info.kind.split(":")[0], op=info.kind, outcome=info.outcome)
        if info.inplace and info.outcome == "ret":
            st.mutations += 1
        oracle(st, info, snaps)
        for r in info.results:
            if isinstance(r, FlodymArray) and not any(r is a for a in st.pool):
                st.store(r)
                st.log.add("result", letters="".join(r.dims.letters), shape=list(r.values.shape), v=vdig(r.values))
        if info.stock is not None:
            st.stocks = (st.stocks + [info.stock])[-2:]
        st.sig.append((info.kind, info.outcome, info.must_raise, bool(op.get("fault"))))
        pool_abs = [("".join(a.dims.letters), bool(isinstance(a.values, np.ndarray) and a.values.flags["C_CONTIGUOUS"]),
                     bool(isinstance(a.values, np.ndarray) and a.values.base is not None)) for a in st.pool]
        st.states.add(jhash(sorted(pool_abs)))
        st.log.add("pool", step=n, v=[vdig(a.values) for a in st.pool])

    # -- minimisation helpers
    def shrink(self, run):
        for k, op in enumerate(run["ops"]):
            if op.get("fault"):
                ops = [dict(o) for o in run["ops"]]
                del ops[k]["fault"]
                yield {"world": run["world"], "ops": ops}
            if op.get("op") == "setitem" and "slice" in op.get("rhs", {}):
                ops = _copy.deepcopy(run["ops"])
                del ops[k]["rhs"]["slice"]
                yield {"world": run["world"], "ops": ops}
        # binary search is not needed for interrupts: try the smallest line events first
        for k, op in enumerate(run["ops"]):
            f = op.get("fault")
            if f and f.get("at") and f["at"] > 1:
                for at in (1, f["at"] // 2, f["at"] - 1):
                    if at < f["at"] and at >= 1:
                        ops = _copy.deepcopy(run["ops"])
                        ops[k]["fault"]["at"] = at
                        yield {"world": run["world"], "ops": ops}

    # -- evidence texts
    def rule(self, prop):
        return ("seeded histories (6-40 public-API operations, chosen while looking at the real pool so that operands are products "
                "of the history: views, transposed einsum views, results of failed operations) over a per-run random universe of 3-5 "
                "dimensions (+ subset dimensions, equal lengths frequent), swarm-selected operation mix and fault rate "
                "{0, 0.1, 0.3}; distinct = distinct sequence of (operation kind/key form, outcome, must-raise clause, fault armed); "
                "non-trivial = at least one successful in-place mutation and at least one oracle clause of this property evaluated"
                + ("; sweep tasks enumerate the line-event crash points (sys.settrace) of one mutating operation of a history" if prop == "C13" else ""))

    def components(self, prop):
        return {"real": ["flodym (flodym_arrays, dimensions, _df_to_flodym_array, stocks constructors, lifetime model constructors)",
                         "pydantic", "numpy", "pandas"],
                "stubbed": ["the caller (generated programs)", "interrupts/allocation failures: sys.settrace line-event injector"],
                "not_run": ["file I/O", "plotting"]}

    def assumptions(self, prop):
        common = ["all arrays of a run draw their dimensions from one common universe (plus its subset dimensions)",
                  "assigning to .values/.dims directly and shape-changing functions passed to apply are excluded (as the property says)"]
        if prop == "C05":
            return common + ["the by-label reference (explicit loops over label tuples) states the property correctly",
                             "list keys combined with a FlodymArray source, and keyed ndarray sources beyond dims/outside-region/copy, are not asserted",
                             "sums are compared exactly when the source is integer-valued (< 2^40), else with relative tolerance 1e-9"]
        if prop == "C13":
            return common + ["after an injected interrupt only the shape invariant is demanded (an interrupt may land after the last store)",
                             "a stock given arrays with the same letters in another order is not asserted to be refused"]
        return common + ["independence is demanded only for the operations the property lists (copy, arithmetic, cast_to, full_like, slice reads, split) "
                         "and for the dimension set of every new array",
                         "the dims probe appends/drops a dimension in place through the public DimensionSet API and undoes it"]


ENGINE = ArraySim()
