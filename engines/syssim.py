"""syssim - a simulated material economy: definition program -> build (C18) -> conserved booking history
with conservation faults (C02) -> exports under disk faults (C19).  DESIGN.md 5.5"""

import copy as _copy
import errno as _errno
import itertools
import logging
import math
import os
import pickle
import shutil
import tempfile
import warnings

import numpy as np
import pandas as pd

from simkit.engine import Engine, jhash
from simkit.kernel import Crash, EventLog, INTERRUPTS, LogCapture, Rng, Violation, exc_class, vdig, dims_sig
from engines.sysworld import (CLS, cls_of, LT, DT, DEF_FAULTS, FILE_FAULTS, GenericSystem, build_system, expected_flow_name, fault_applicable,
                              gen_sysworld, make_definition, param_values, _dim)

from flodym import FlodymArray, DimensionSet, MFASystem, StockDrivenDSM, DynamicStockModel
from flodym.export.helper import to_valid_file_name
import flodym.export.data_writer as dw

EPS = float(np.finfo(np.float64).eps)


class _St:
    pass


# ============================================================================= reference: mass balance by label
def ref_contributions(sys_):
    contrib = {p: [] for p in sys_.processes}
    for f in sys_.flows.values():
        contrib[f.from_process.name].append((-1.0, f.dims, f.values))
        contrib[f.to_process.name].append((1.0, f.dims, f.values))
    for s in sys_.stocks.values():
        if s.process is None:
            continue
        contrib[s.process.name].append((-1.0, s.inflow.dims, s.inflow.values))
        contrib[s.process.name].append((1.0, s.outflow.dims, s.outflow.values))
        contrib["sysenv"].append((1.0, s.inflow.dims, s.inflow.values))
        contrib["sysenv"].append((-1.0, s.outflow.dims, s.outflow.values))
    return contrib


def ref_imbalance(sys_):
    """per process: max |sum of signed contributions| over the label combinations of the dimensions common to all of the
    process's contributions (explicit loops, math.fsum); NaN if any contribution holds a NaN"""
    out = {}
    for p, parts in ref_contributions(sys_).items():
        if not parts:
            out[p] = 0.0
            continue
        common = None
        for _, dims, _ in parts:
            ls = set(dims.letters)
            common = ls if common is None else (common & ls)
        acc = {}
        nan = False
        for sign, dims, vals in parts:
            letters = dims.letters
            pos = [k for k, l in enumerate(letters) if l in common]
            order = sorted(range(len(pos)), key=lambda k: letters[pos[k]])
            items = [list(d.items) for d in dims]
            for idx in itertools.product(*[range(n) for n in vals.shape]):
                v = float(vals[idx])
                if v != v:
                    nan = True
                    continue
                key = tuple((letters[pos[k]], items[pos[k]][idx[pos[k]]]) for k in order)
                acc.setdefault(key, []).append(sign * v)
        out[p] = float("nan") if nan else max((abs(math.fsum(v)) for v in acc.values()), default=0.0)
    return out


def ref_default_tolerance(sys_):
    mx = [float(np.max(np.abs(f.values))) if f.values.size else 0.0 for f in sys_.flows.values()]
    mx += [float(np.max(np.abs(s.stock.values))) if s.stock.values.size else 0.0 for s in sys_.stocks.values()]
    m = 0.0
    for x in mx:
        if x != x:
            return float("nan")
        m = max(m, x)
    return 100 * EPS * m


# ============================================================================= engine
class SysSim(Engine):
    NAME = "syssim"
    LEVEL = {"C18": "exploration", "C02": "fault_enumeration", "C19": "fault_enumeration"}

    def tasks(self, prop, tier, seed):
        n = {"C18": {"quick": 5000, "thorough": 120000}, "C02": {"quick": 6000, "thorough": 150000},
             "C19": {"quick": 2500, "thorough": 60000}}[prop][tier]
        tasks = [{"kind": "run", "idx": k} for k in range(n)]
        if prop == "C02":
            tasks += [{"kind": "entrysweep", "idx": k} for k in range({"quick": 80, "thorough": 3000}[tier])]
        if prop == "C19":
            tasks += [{"kind": "iosweep", "idx": k} for k in range({"quick": 60, "thorough": 2000}[tier])]
        return tasks

    def budget(self, prop, tier):
        return 300 if tier == "quick" else 3000

    # ------------------------------------------------------------------ generation
    def generate(self, task, prop, seed, tier):
        rng = Rng(self.NAME, prop, seed, task["kind"], task["idx"])
        if prop == "C18":
            world = gen_sysworld(rng, blank_names=True)  # no files are named after flows here
            ops = []
            if rng.chance(0.45):
                cands = [k for k in DEF_FAULTS + FILE_FAULTS if fault_applicable(world, {"kind": k, "k": 0})]
                if cands:
                    ops.append({"kind": rng.choice(cands), "k": rng.randint(0, 7), "row": rng.randint(0, 50)})
            return {"world": world, "ops": ops}
        world = gen_sysworld(rng, small=True)
        world["build"]["path"] = rng.choice(["direct", "reader"])
        if prop == "C19" and rng.chance(0.12):
            # a hand-built dimension without declared type whose labels are numbers and text ("1", "2", "3+" size classes)
            cand = [d for d in world["dims"][1:] if d["dtype"] in ("str", "int") and not d.get("awkward")]
            if cand:
                d = rng.choice(cand)
                d["items"] = ([1, 2, "3+"] if rng.chance(0.5) else ["<1", 1, 5])[:max(2, len(d["items"]))] if len(d["items"]) > 1 else [7]
                d["dtype"] = "mixed"
                world["mixed"] = True
                world["build"]["path"] = "direct"
        if prop == "C02":
            return {"world": world, "ops": self._gen_c02(rng, world, task, tier)}
        return {"world": world, "ops": self._gen_c19(rng, world, task, tier)}

    # ---- C02 workload: parcels on closed walks through sysenv, faults, heals, checks
    def _gen_c02(self, rng, world, task, tier):
        ops = []
        flows = world["flows"]
        out_of = {}
        for k, f in enumerate(flows):
            out_of.setdefault(f["from"], []).append(k)
        nlabels = [len(d["items"]) for d in world["dims"]]

        def walk():
            cur, route = 0, []
            for _ in range(8):
                if cur not in out_of:
                    return None
                k = rng.choice(out_of[cur])
                route.append(k)
                cur = flows[k]["to"]
                if cur == 0:
                    return route
            return None

        big = rng.chance(0.3)
        for _ in range(rng.randint(0, 12)):
            r = walk()
            if r is None:
                continue
            label = [rng.randint(0, n - 1) for n in nlabels]
            op = {"op": "parcel", "route": r, "label": label, "mass": rng.randint(1, 2 ** 20 if big else 50)}
            # park the parcel in a stock attached to a process on the route
            stops = [(i, flows[k]["to"]) for i, k in enumerate(r[:-1])]
            cands = [(i, s) for i, pr in stops for s, sd in enumerate(world["stocks"]) if sd["process"] == pr]
            if cands and rng.chance(0.6):
                i, s = rng.choice(cands)
                op["park"] = {"after_hop": i, "stock": s, "t2": rng.randint(label[0], nlabels[0] - 1)}
            ops.append(op)
        # stocks without a process get arbitrary content: must not matter
        ops.append({"op": "free_stock_noise", "vseed": rng.randint(0, 10 ** 6)})
        if rng.chance(0.2):
            # masses are whole numbers: some flows are held as integer arrays (counts of items), stored through the public setter
            ops.append({"op": "retype", "which": rng.randint(1, 2 ** 16)})
        n_rounds = rng.randint(1, 4)
        for _ in range(n_rounds):
            ops.append(self._gen_check(rng, world))
            if rng.chance(0.75):
                ops.append({"op": "fault", "kind": rng.weighted([("delta_big", 3), ("delta_small", 3), ("delta_just_above", 6), ("delta_0p2", 1), ("delta_1p5", 1), ("delta_4", 1),
                                                  ("nan", 2), ("neg_big", 2), ("neg_small", 1), ("inf_pair", 1), ("neg_pair", 2)]),
                            "arr": rng.randint(0, 50), "role": rng.choice(["flow", "flow", "inflow", "outflow"]), "entry": rng.randint(0, 10 ** 6),
                            "sign": rng.choice([1, -1])})
                if rng.chance(0.1):
                    # right at the edge of an explicit tolerance: a few parts per million above or below it
                    T = rng.choice([0.5, 10.0])
                    ops[-1].update({"kind": rng.choice(["delta_edge_above", "delta_edge_below"]), "T": T})
                    ops.append({"op": "check", "what": "mass_balance", "raise": rng.chance(0.5), "tol": T})
                ops.append(self._gen_check(rng, world))
                if rng.chance(0.6):
                    ops.append({"op": "heal"})
                    ops.append(self._gen_check(rng, world))
            if rng.chance(0.12):
                # the graph is edited between two checks without any name changing: a stock moved to another process (or detached), a flow
                # replaced by one of the same name between other processes
                ops.append({"op": "rewire", "what": rng.choice(["stock", "flow"]), "k": rng.randint(0, 20), "to": rng.randint(0, 20), "to2": rng.randint(0, 20)})
                ops.append({"op": "check", "what": "mass_balance", "raise": rng.chance(0.5), "tol": rng.choice([None, None, 0.5])})
        return ops

    def _gen_check(self, rng, world):
        if rng.chance(0.6):
            return {"op": "check", "what": "mass_balance", "raise": rng.chance(0.5), "tol": rng.choice([None, None, None, 0.5, 10.0, 0.0])}
        names = []
        if rng.chance(0.4) and world["flows"]:
            f = rng.choice(world["flows"])
            names.append({"flow": world["flows"].index(f)} if rng.chance(0.5) else {"process": rng.choice([f["from"], f["to"]])})
            # a process whose name is part of another process's name: exceptions are exact names, not substrings
            short = [i for i, p in enumerate(world["processes"]) if any(p != q and p in q for q in world["processes"])]
            if short and rng.chance(0.6):
                names = [{"process": rng.choice(short)}]
        return {"op": "check", "what": "flows", "raise": rng.chance(0.5), "exceptions": names, "verbose": rng.chance(0.3)}

    # ---- C19 workload
    def _gen_c19(self, rng, world, task, tier):
        ops = [{"op": "fill", "vseed": rng.randint(0, 10 ** 6), "inf": rng.randint(1, 1000) if rng.chance(0.12) else 0}]
        if world["stocks"] and rng.chance(0.3):
            ops.insert(0, {"op": "user_arrays", "relabel": rng.choice([None, "inflow", "outflow"])})
        if rng.chance(0.15):
            # the exported system is a view assembled by hand from the objects of the built one: same flows, stocks and parameters, the
            # processes in another order (their ids are then not their positions)
            ops.insert(0, {"op": "reassemble", "order": rng.randint(0, 10 ** 6)})
        for _ in range(rng.randint(1, 5)):
            kind = rng.weighted([("to_dict", 3), ("pickle", 2), ("flows_csv", 3), ("stocks_csv", 3), ("to_dfs", 1)])
            if world.get("mixed") and kind in ("flows_csv", "stocks_csv"):
                kind = "to_dict"  # untyped labels of mixed type do not survive text files; the in-memory forms and the pickle do
            if rng.chance(0.3):
                ops.append({"op": "fill", "vseed": rng.randint(0, 10 ** 6)})
            op = {"op": kind, "type": rng.choice(["numpy", "pandas"]), "with_io": rng.chance(0.5), "dir": rng.choice(["new", "existing", "nested"]),
                  "reuse": rng.weighted([(False, 5), (True, 3), ("other_csv", 2)])}
            if kind in ("pickle", "flows_csv", "stocks_csv") and rng.chance(0.35):
                op["fault"] = rng.choice([
                    {"kind": "open_fail", "nth": rng.randint(1, 4), "errno": rng.choice(["EACCES", "ENOSPC", "EIO"])},
                    {"kind": "write_fail", "nth": rng.randint(1, 4), "after": rng.choice([0, 1, 7, 40, 200]), "errno": rng.choice(["ENOSPC", "EIO"])},
                    {"kind": "makedirs_fail", "errno": "EACCES"},
                    {"kind": "interrupt", "at": rng.randint(1, 300), "flavour": rng.choice(["mem", "kbd"])},
                ])
            ops.append(op)
        return ops

    def run_task(self, task, prop, seed, tier):
        run = self.generate(task, prop, seed, tier)
        if task["kind"] == "entrysweep":
            res = self._entry_sweep(run, prop, tier)
        elif task["kind"] == "iosweep":
            res = self._io_sweep(run, prop, tier)
        else:
            res = self.execute(run, prop)
        if res.get("violation") and "run" not in res:
            r = dict(run)
            r["task"] = {k: v for k, v in task.items() if k != "keep"}
            res["run"] = r
        if task.get("keep"):
            res["sample"] = {"task": {k: v for k, v in task.items() if k != "keep"}, "run": run}
        return res

    def _merge(self, agg, r):
        if agg is None:
            return r
        for key in ("faults", "clauses", "probes"):
            for name, c in r.get(key, {}).items():
                agg[key][name] = agg[key].get(name, 0) + c
        agg["steps"] += r["steps"]
        return agg

    def _entry_sweep(self, run, prop, tier):
        """F5 at every entry of every flow and stock array of a sampled system, above and below tolerance, both modes"""
        base = [op for op in run["ops"] if op["op"] in ("parcel", "free_stock_noise")]
        world = run["world"]
        res0 = self.execute({"world": world, "ops": base + [{"op": "check", "what": "mass_balance", "raise": True, "tol": None}]}, prop)
        if res0.get("violation"):
            res0["run"] = {"world": world, "ops": base + [{"op": "check", "what": "mass_balance", "raise": True, "tol": None}], "task": None}
            return res0
        sizes = res0.get("array_sizes", [])
        agg = res0
        n = 0
        cap = 120 if tier == "quick" else 2000
        for a, (role, size) in enumerate(sizes):
            for e in range(size):
                for kind in ("delta_big", "delta_small", "delta_just_above", "nan"):
                    if n >= cap:
                        break
                    mode = bool((a + e + n) % 2)
                    ops = base + [{"op": "fault", "kind": kind, "arr": a, "role": role, "entry": e, "sign": 1 if (e % 2) else -1, "exact": True},
                                  {"op": "check", "what": "mass_balance", "raise": mode, "tol": None},
                                  {"op": "heal"},
                                  {"op": "check", "what": "mass_balance", "raise": not mode, "tol": None}]
                    rk = {"world": world, "ops": ops}
                    r = self.execute(rk, prop)
                    n += 1
                    agg = self._merge(agg, r)
                    if r.get("violation"):
                        r["run"] = rk
                        r["run"]["task"] = None
                        return r
        agg["probes"]["single_entry_faults_enumerated"] = n
        if n < cap:
            agg["probes"]["systems_with_every_entry_faulted"] = 1
        agg["sig"] = jhash([agg["sig"], "entrysweep", n])
        agg["nontrivial"] = True
        return agg

    def _io_sweep(self, run, prop, tier):
        """F4 at every open() call index and a grid of byte budgets for one export of a sampled system"""
        world = run["world"]
        fill = [op for op in run["ops"] if op["op"] == "fill"][:1]
        agg = None
        n = 0
        for kind in ("pickle", "flows_csv", "stocks_csv"):
            nfiles = 1 if kind == "pickle" else (len(world["flows"]) if kind == "flows_csv" else 3 * len(world["stocks"]))
            for nth in range(1, nfiles + 1):
                faults = [{"kind": "open_fail", "nth": nth, "errno": "EACCES"}]
                faults += [{"kind": "write_fail", "nth": nth, "after": b, "errno": "ENOSPC"} for b in (0, 1, 16, 64, 256)]
                for f in faults:
                    ops = fill + [{"op": kind, "type": "numpy", "with_io": True, "dir": "new", "fault": f}]
                    rk = {"world": world, "ops": ops}
                    r = self.execute(rk, prop)
                    n += 1
                    agg = self._merge(agg, r)
                    if r.get("violation"):
                        r["run"] = rk
                        r["run"]["task"] = None
                        return r
        if agg is None:
            return self.execute(run, prop)
        agg["probes"]["io_fault_points_enumerated"] = n
        agg["probes"]["systems_with_every_open_index_faulted"] = 1
        agg["sig"] = jhash([agg["sig"], "iosweep", n])
        agg["nontrivial"] = True
        return agg

    # ------------------------------------------------------------------ execution
    def execute(self, run, prop):
        st = _St()
        st.log = EventLog()
        st.clauses, st.probes, st.faults = {}, {}, {}
        st.sig = []
        st.states = set()
        st.array_sizes = []
        tmp = tempfile.mkdtemp(prefix="syssim_")
        st.tmp = tmp
        violation = None
        steps = 0
        try:
            with np.errstate(all="ignore"), warnings.catch_warnings():
                warnings.simplefilter("ignore")
                try:
                    if prop == "C18":
                        steps = 1
                        self._c18(st, run)
                    else:
                        steps = self._history(st, run, prop)
                except Violation as v:
                    violation = {"clause": v.clause, "step": getattr(st, "step", 0), "detail": v.detail, "tags": v.tags}
                    st.log.add("violation", clause=v.clause)
        finally:
            shutil.rmtree(tmp, ignore_errors=True)
        return {"violation": violation, "digest": st.log.digest(), "steps": steps, "faults": st.faults, "probes": st.probes,
                "clauses": st.clauses, "sig": jhash(st.sig), "nontrivial": bool(sum(st.clauses.values()) > 0), "states": sorted(st.states),
                "array_sizes": st.array_sizes}

    def _cnt(self, st, c, n=1):
        st.clauses[c] = st.clauses.get(c, 0) + n

    def _probe(self, st, c):
        st.probes[c] = st.probes.get(c, 0) + 1

    def _fault(self, st, c):
        st.faults[c] = st.faults.get(c, 0) + 1

    # ================================================================== C18
    def _c18(self, st, run):
        world = run["world"]
        faults = [f for f in run["ops"] if fault_applicable(world, f)]
        st.step = 0
        st.log.add("build", path=world["build"]["path"], faults=[f["kind"] for f in faults],
                   n=[len(world["processes"]), len(world["flows"]), len(world["stocks"]), len(world["params"])])
        tags = dict(path=world["build"]["path"], sheets=bool(world["build"]["sheets"]))
        applied = set()
        try:
            holder = {}
            sys_, definition = build_system(world, st.tmp, faults, applied=applied, holder=holder)
            outcome = ("ret", None)
        except Exception as e:  # noqa
            sys_, outcome = None, ("raise", exc_class(e))
        st.log.add("outcome", outcome=outcome[0], exc=outcome[1])
        st.states.add(jhash([world["build"]["path"], world["build"]["sheets"], [f["kind"] for f in faults], outcome[0], world["naming"],
                             sorted(set(s_["cls"] for s_ in world["stocks"])), sorted(set(d["dtype"] for d in world["dims"]))]))
        st.sig.append((world["build"]["path"], world["build"]["sheets"], tuple(f["kind"] for f in faults), outcome[0],
                       len(world["flows"]), len(world["stocks"]), len(world["params"]), world["naming"]))
        # row faults on a one-row parameter table change nothing: only faults that really altered the input count
        faults = [f for f in faults if f["kind"] not in ("param_row_dropped", "param_row_duplicated", "param_row_unknown") or f["kind"] in applied]
        # what the caller explicitly allowed is not a fault any more (missing values -> zero, rows with unknown items -> ignored)
        am, ae = world["build"].get("flags", [False, False]) if world["build"]["path"] in ("csv", "excel") else (False, False)
        permitted = [f for f in faults if (f["kind"] == "param_row_dropped" and am) or (f["kind"] == "param_row_unknown" and ae)]
        faults = [f for f in faults if f not in permitted]
        for f in permitted:
            self._fault(st, f["kind"] + "_permitted_by_flag")
        lenient_params = {world["params"][f["k"] % len(world["params"])]["name"] for f in permitted if f["kind"] == "param_row_dropped"}
        faults = [f for f in faults if f["kind"] not in ("dim_file_eio", "param_file_eacces") or "io_error" in applied]
        if faults:
            for f in faults:
                self._fault(st, f["kind"])
            self._cnt(st, "refuses-bad-definition")
            if outcome[0] == "ret":
                raise Violation("refuses-bad-definition", f"a definition/file set with fault {[f['kind'] for f in faults]} was built into a system "
                                                          f"(path {world['build']['path']})", cls="refuses:" + faults[0]["kind"], fault=faults[0]["kind"], **tags)
            return
        self._cnt(st, "build-succeeds")
        if outcome[0] != "ret":
            raise Violation("build-succeeds", f"building a well-formed system through path '{world['build']['path']}' "
                                              f"(sheets named: {world['build']['sheets']}) raised {outcome[1]}", cls="build-succeeds:" + world["build"]["path"], **tags)
        self._compare_system(st, world, sys_, tags, lenient_params)
        if permitted:
            return
        # the same definition objects are used again (another scenario, another naming function): same answer
        world2 = _copy.deepcopy(world)
        if world["build"]["path"] == "direct":
            world2["naming"] = {"arrow": "ids", "ids": "no_spaces", "no_spaces": "arrow"}[world["naming"]]
        if world["build"]["path"] in ("csv", "excel") and world["build"].get("via_readers"):
            # the input files are rewritten in place (another scenario: labels in another order, one more category) and read
            # again through the reader objects the caller kept
            for d in world2["dims"][1:]:
                if d.get("awkward"):
                    continue
                more = {"str": f"{d['letter']}9x", "int": 990 + ord(d["letter"]), "float": 990.5 + ord(d["letter"])}[d["dtype"]]
                d["items"] = list(d["items"])[::-1] + ([more] if (world["build"]["dict_order"] + ord(d["letter"])) % 2 else [])
            self._probe(st, "files_rewritten_same_reader_objects")
        self._cnt(st, "rebuild-from-same-definitions")
        try:
            sys2, _ = build_system(world2, st.tmp, (), definition=definition, holder=holder)
        except Exception as e:  # noqa
            raise Violation("rebuild-from-same-definitions", f"building a second system from the same definition objects raised {exc_class(e)}",
                            cls="rebuild-from-same-definitions", **tags)
        self._compare_system(st, world2, sys2, dict(tags, rebuild=True))

    def _compare_system(self, st, world, sys_, tags, lenient_params=()):
        try:
            return self._compare_system_inner(st, world, sys_, tags, lenient_params)
        except (AttributeError, KeyError, TypeError, IndexError) as e:
            # what the build handed back is not a system with processes, flows, stocks and parameters of the documented kinds
            raise Violation("build-succeeds", f"the object returned by the build ({type(sys_).__name__}) cannot be inspected as a system: {exc_class(e)}",
                            cls="build-succeeds:malformed", **tags)

    def _compare_system_inner(self, st, world, sys_, tags, lenient_params=()):
        def bad(clause, msg, **kw):
            raise Violation(clause, msg, cls=clause, **dict(tags, **kw))

        # dimensions
        self._cnt(st, "dimension-items")
        got = list(sys_.dims)
        if [d.letter for d in got] != [d["letter"] for d in world["dims"]]:
            bad("dimension-items", f"system dimensions {[d.letter for d in got]} differ from the definition order")
        for d, w in zip(got, world["dims"]):
            if list(d.items) != list(w["items"]) or any(type(x) is not DT[w["dtype"]] for x in d.items) or d.name != w["name"]:
                bad("dimension-items", f"dimension {w['name']}: items {d.items[:6]} (types {sorted({type(x).__name__ for x in d.items})}) "
                                       f"instead of {w['items'][:6]} as {w['dtype']}", orient=world["build"]["dimfiles"][w["letter"]]["orient"])
        # processes
        self._cnt(st, "processes-numbered")
        names = list(sys_.processes)
        if names != list(world["processes"]) or [sys_.processes[n].id for n in names] != list(range(len(names))) or names[0] != "sysenv":
            bad("processes-numbered", f"processes {[(n, sys_.processes[n].id) for n in names]} do not match the listed order")
        # flows
        self._cnt(st, "flows-match")
        exp_names = [expected_flow_name(world, f) for f in world["flows"]]
        if sorted(sys_.flows) != sorted(exp_names):
            bad("flows-match", f"flow names {sorted(sys_.flows)} instead of {sorted(exp_names)}")
        for f, name in zip(world["flows"], exp_names):
            fl = sys_.flows[name]
            if fl.from_process.name != world["processes"][f["from"]] or fl.to_process.name != world["processes"][f["to"]]:
                bad("flows-match", f"flow '{name}' runs {fl.from_process.name} -> {fl.to_process.name}")
            if fl.from_process.id != f["from"] or fl.to_process.id != f["to"]:
                bad("flows-match", f"flow '{name}' endpoint ids {fl.from_process.id},{fl.to_process.id}")
            if tuple(fl.dims.letters) != tuple(f["dims"]):
                bad("flows-match", f"flow '{name}' dims {fl.dims.letters} instead of {tuple(f['dims'])}")
            for d in fl.dims:
                if list(d.items) != list(_dim(world, d.letter)["items"]):
                    bad("flows-match", f"flow '{name}' dimension {d.letter} has other items than the system")
            if fl.values.shape != tuple(len(_dim(world, l)["items"]) for l in f["dims"]) or np.any(fl.values != 0):
                bad("flows-match", f"flow '{name}' is not a zero array of the right shape")
            if fl.name != name:
                bad("flows-match", f"flow stored under '{name}' is named '{fl.name}'")
        # stocks
        self._cnt(st, "stocks-match")
        if sorted(sys_.stocks) != sorted(s["name"] for s in world["stocks"]):
            bad("stocks-match", f"stock names {sorted(sys_.stocks)}")
        for s in world["stocks"]:
            so = sys_.stocks[s["name"]]
            if type(so) is not cls_of(s):
                bad("stocks-match", f"stock '{s['name']}' is a {type(so).__name__}, requested {cls_of(s).__name__}", field="class")
            if tuple(so.dims.letters) != tuple(s["dims"]):
                bad("stocks-match", f"stock '{s['name']}' dims {so.dims.letters} instead of {tuple(s['dims'])}", field="dims")
            if so.time_letter != world["dims"][0]["letter"] or (s["lt"] is not None and so.lifetime_model.time_letter != world["dims"][0]["letter"]):
                bad("stocks-match", f"stock '{s['name']}' time letter {so.time_letter}", field="time_letter")
            pname = None if so.process is None else so.process.name
            want = None if s["process"] is None else world["processes"][s["process"]]
            if pname != want or (so.process is not None and so.process.id != s["process"]):
                bad("stocks-match", f"stock '{s['name']}' attached to {pname} instead of {want}", field="process")
            if s["lt"] is not None and type(so.lifetime_model) is not LT[s["lt"]]:
                bad("stocks-match", f"stock '{s['name']}' lifetime model {type(so.lifetime_model).__name__} instead of {LT[s['lt']].__name__}", field="lifetime_model")
            if s["cls"] == "stockdriven" and so.solver != s["solver"]:
                bad("stocks-match", f"stock '{s['name']}' solver '{so.solver}' instead of '{s['solver']}'", field="solver")
            for arr in (so.stock, so.inflow, so.outflow):
                if tuple(arr.dims.letters) != tuple(s["dims"]) or np.any(arr.values != 0):
                    bad("stocks-match", f"stock '{s['name']}' arrays are not zero arrays over {s['dims']}", field="arrays")
        # parameters
        self._cnt(st, "parameters-match")
        if sorted(sys_.parameters) != sorted(p["name"] for p in world["params"]):
            bad("parameters-match", f"parameter names {sorted(sys_.parameters)}")
        for p in world["params"]:
            po = sys_.parameters[p["name"]]
            if tuple(po.dims.letters) != tuple(p["dims"]):
                bad("parameters-match", f"parameter '{p['name']}' dims {po.dims.letters} instead of {tuple(p['dims'])}")
            want = param_values(world, p)
            if p["name"] in lenient_params:
                # a row was dropped and allow_missing_parameter_values was given: every entry is the file's value or zero
                if po.values.shape != want.shape or not np.all((po.values == want) | (po.values == 0)):
                    bad("parameters-match", f"parameter '{p['name']}' (one row missing, permitted): entries are neither the file's value nor zero")
                continue
            if po.values.shape != want.shape or not np.array_equal(po.values, want):
                bad("parameters-match", f"parameter '{p['name']}' values differ from the file by label", layout=str(p["layout"]["wide"] is not None))

    # ================================================================== C02 / C19 histories
    def _history(self, st, run, prop):
        world = run["world"]
        try:
            sys_, _ = build_system(world, st.tmp, ())
        except Exception as e:  # noqa - judged by C18, not here
            st.log.add("build-failed", exc=exc_class(e))
            return 0
        st.sys = sys_
        st.world = world
        st.flow_names = [expected_flow_name(world, f) for f in world["flows"]]
        st.undo = []
        st.array_sizes = [("flow", sys_.flows[n].values.size) for n in st.flow_names]
        for s in world["stocks"]:
            st.array_sizes += [("inflow", sys_.stocks[s["name"]].inflow.values.size), ("outflow", sys_.stocks[s["name"]].outflow.values.size)]
        steps = 0
        for n, op in enumerate(run["ops"]):
            st.step = n
            steps += 1
            st.log.add("invoke", step=n, op=op)
            if prop == "C02":
                self._c02_step(st, op)
            else:
                self._c19_step(st, op)
        return steps

    # ---------------- C02
    def _arrays(self, st):
        out = [("flow", st.sys.flows[n]) for n in st.flow_names]
        for s in st.world["stocks"]:
            out += [("inflow", st.sys.stocks[s["name"]].inflow), ("outflow", st.sys.stocks[s["name"]].outflow)]
        return out

    def _book(self, arr, label_by_letter, mass):
        idx = tuple(label_by_letter[l] for l in arr.dims.letters)
        arr.values[idx] += mass

    def _c02_step(self, st, op):
        sys_, world = st.sys, st.world
        kind = op["op"]
        if kind == "parcel":
            letters = [d["letter"] for d in world["dims"]]
            lab = {l: op["label"][k] % len(world["dims"][k]["items"]) for k, l in enumerate(letters)}
            park = op.get("park")
            for i, k in enumerate(op["route"]):
                k = k % len(st.flow_names)
                self._book(sys_.flows[st.flow_names[k]], lab, float(op["mass"]))
                if park and i == park["after_hop"] and world["stocks"]:
                    s = sys_.stocks[world["stocks"][park["stock"] % len(world["stocks"])]["name"]]
                    self._book(s.inflow, lab, float(op["mass"]))
                    lab = dict(lab)
                    tl = world["dims"][0]["letter"]
                    lab[tl] = max(lab[tl], park["t2"] % len(world["dims"][0]["items"]))
                    self._book(s.outflow, lab, float(op["mass"]))
                    self._probe(st, "parcel_parked_in_stock")
            self._update_levels(st)
            return
        if kind == "free_stock_noise":
            rs = np.random.RandomState(op["vseed"] % 2 ** 31)
            for s in world["stocks"]:
                if s["process"] is None:
                    so = sys_.stocks[s["name"]]
                    so.inflow.values[...] = rs.randint(0, 30, size=so.inflow.values.shape).astype(float)
                    so.outflow.values[...] = rs.randint(0, 30, size=so.outflow.values.shape).astype(float)
                    self._probe(st, "stock_without_process_filled")
            self._update_levels(st)
            return
        if kind == "fault":
            arrs = [(r, a) for r, a in self._arrays(st) if op.get("exact") or r == op["role"] or op["role"] == "flow" and r == "flow"]
            if op.get("exact"):
                arrs = self._arrays(st)
                role, arr = arrs[op["arr"] % len(arrs)]
            else:
                cands = [(r, a) for r, a in self._arrays(st) if r == op["role"]] or self._arrays(st)
                role, arr = cands[op["arr"] % len(cands)]
            if arr.values.size == 0:
                return
            idx = np.unravel_index(op["entry"] % arr.values.size, arr.values.shape) if arr.values.shape else ()
            if arr.values.dtype.kind in "iu" and (op["kind"] not in ("neg_big", "neg_pair") or not np.isfinite(ref_default_tolerance(sys_))):
                arr.set_values(arr.values.astype(np.float64))   # NaN, inf and fractions need a float array
            old = float(arr.values[idx])
            tol = ref_default_tolerance(sys_)
            scale = max(tol, 100 * EPS)
            fk = op["kind"]
            if fk == "neg_pair":
                # two neighbouring flows of the system get an entry far below zero at once: both must be flagged
                names_ = st.flow_names
                if len(names_) < 2:
                    return
                j = op["arr"] % (len(names_) - 1)
                for nm in (names_[j], names_[j + 1]):
                    a_ = sys_.flows[nm]
                    if a_.values.size == 0:
                        continue
                    idx_ = np.unravel_index(op["entry"] % a_.values.size, a_.values.shape) if a_.values.shape else ()
                    val_ = -max(25.0, 4 * scale) if op["sign"] < 0 else np.nan   # ... or a NaN each
                    if a_.values.dtype.kind in "iu" and not (np.isfinite(val_) and val_ == round(val_)):
                        a_.set_values(a_.values.astype(np.float64))   # NaN, inf and fractions need a float array
                    st.undo.append((a_, idx_, float(a_.values[idx_])))
                    a_.values[idx_] = val_
                self._fault(st, "conservation_neg_pair_flow" if op["sign"] < 0 else "conservation_nan_pair_flow")
                self._update_levels(st)
                return
            if fk == "inf_pair":
                # unbounded entries are values like any other: +inf and -inf in one flow.  The default tolerance is then infinite and
                # no entry lies below minus infinity, so check_flows has nothing to flag there; the balance itself is not judged
                if role != "flow" or arr.values.size < 2:
                    return
                idx2 = np.unravel_index((op["entry"] + 1) % arr.values.size, arr.values.shape)
                old2 = float(arr.values[idx2])
                arr.values[idx] = np.inf
                arr.values[idx2] = -np.inf
                st.undo.append((arr, idx2, old2))
                st.undo.append((arr, idx, old))
                self._fault(st, "conservation_inf_pair_flow")
                self._update_levels(st)
                return
            if fk == "nan":
                new = float("nan")
            elif fk == "delta_big":
                new = old + op["sign"] * max(25.0, 4 * scale)       # >= 2 * every tolerance used (default, 0.5, 10.0)
            elif fk == "delta_small":
                new = old + op["sign"] * scale / 4                  # <= tol / 2
            elif fk == "delta_just_above":
                new = old + op["sign"] * (3 * tol if tol > 0 else 25.0)   # just above the default tolerance
            elif fk in ("delta_edge_above", "delta_edge_below"):
                new = old + op["sign"] * op["T"] * (1 + (4e-6 if fk.endswith("above") else -4e-6))
            elif fk in ("delta_0p2", "delta_1p5", "delta_4"):
                new = old + op["sign"] * {"delta_0p2": 0.2, "delta_1p5": 1.5, "delta_4": 4.0}[fk]   # around the explicit tolerances 0.5 / 10
            elif fk == "neg_big":
                new = -max(25.0, 4 * scale)
            else:  # neg_small
                new = -scale / 4 if old == 0 else old
            arr.values[idx] = new
            st.undo.append((arr, idx, old))
            self._fault(st, "conservation_" + fk + "_" + role)
            self._update_levels(st)
            return
        if kind == "retype":
            for k_, nm in enumerate(st.flow_names):
                f = sys_.flows[nm]
                if (op["which"] >> (k_ % 16)) & 1 and f.values.size and np.all(np.isfinite(f.values)) and np.all(f.values == np.round(f.values)):
                    f.set_values(f.values.astype(np.int64))
                    self._probe(st, "flow_held_as_integer_array")
            return
        if kind == "rewire":
            from flodym import Flow
            procs = list(sys_.processes.values())
            if op["what"] == "stock" and world["stocks"]:
                so = sys_.stocks[world["stocks"][op["k"] % len(world["stocks"])]["name"]]
                cands = [None] + procs[1:]
                new = cands[op["to"] % len(cands)]
                if new is so.process:
                    new = cands[(op["to"] + 1) % len(cands)]
                so.process = new
                self._probe(st, "stock_moved_to_another_process_between_checks")
            else:
                name = st.flow_names[op["k"] % len(st.flow_names)]
                f = sys_.flows[name]
                a, b = procs[op["to"] % len(procs)], procs[op["to2"] % len(procs)]
                if a is f.from_process and b is f.to_process:
                    a = procs[(op["to"] + 1) % len(procs)]
                sys_.flows[name] = Flow(dims=f.dims, values=f.values, name=f.name, from_process=a, to_process=b)
                self._probe(st, "flow_replaced_between_checks")
            return
        if kind == "heal":
            if st.undo:
                arr, idx, old = st.undo.pop()
                arr.values[idx] = old
                self._fault(st, "heal")
                st.healed = True
                self._update_levels(st)
            return
        if kind == "check":
            if op["what"] == "mass_balance":
                self._judge_mass_balance(st, op)
            else:
                self._judge_check_flows(st, op)
            return
        raise AssertionError(kind)

    def _update_levels(self, st):
        for s in st.world["stocks"]:
            so = st.sys.stocks[s["name"]]
            with np.errstate(all="ignore"):
                so.stock.values[...] = np.cumsum(so.inflow.values - so.outflow.values, axis=0)

    def _snapshot(self, sys_):
        out = {}

        def cp(v):
            c = v.copy()
            c.flags.writeable = v.flags.writeable
            return c
        for n, f in sys_.flows.items():
            out["flow " + n] = (dims_sig(f.dims), cp(f.values))
        for n, s in sys_.stocks.items():
            for r in ("stock", "inflow", "outflow"):
                a = getattr(s, r)
                out[f"stock {n} {r}"] = (dims_sig(a.dims), cp(a.values))
        for n, p in sys_.parameters.items():
            out["param " + n] = (dims_sig(p.dims), cp(p.values))
        out["dims"] = (dims_sig(sys_.dims), None)
        out["processes"] = ([(n, p.id) for n, p in sys_.processes.items()], None)
        return out

    def _same_snapshot(self, a, b):
        if list(a) != list(b):
            return "keys"
        for k in a:
            if a[k][0] != b[k][0]:
                return k
            if a[k][1] is not None and not np.array_equal(a[k][1], b[k][1], equal_nan=True):
                return k
            if a[k][1] is not None and a[k][1].flags.writeable != b[k][1].flags.writeable:
                return k + " (left read-only: the next in-place write or recompute fails)"
        return None

    def _judge_mass_balance(self, st, op):
        sys_ = st.sys
        if any(np.any(np.isinf(a.values)) for _, a in self._arrays(st)):
            self._probe(st, "mass_balance_not_judged_infinite_entries")
            return
        imb = ref_imbalance(sys_)
        tol = op["tol"] if op["tol"] is not None else ref_default_tolerance(sys_)
        has_nan = any(v != v for v in imb.values())
        tags = dict(mode="raise" if op["raise"] else "warn", tol="explicit" if op["tol"] is not None else "default",
                    no_stocks=not sys_.stocks, idle_process=any(not parts for parts in ref_contributions(sys_).values()),
                    nan=has_nan, healed=bool(getattr(st, "healed", False)))
        if tol != tol and not has_nan:
            return  # a NaN sits only in a stock that is attached to no process: the default tolerance is undefined, the property silent
        if has_nan:
            expect_pass = False
        else:
            worst = max(imb.values(), default=0.0)
            gray = [v for v in imb.values() if tol / 2 < v < 2 * tol]
            if op["tol"] is not None and tol > 0:
                # an explicit tolerance and (next to at most two fractional entries) whole numbers everywhere: every partial sum flodym can
                # form is then exact up to a few ulp of the largest magnitude, and the verdict is also demanded close to the tolerance
                arrs_ = [a.values for _, a in self._arrays(st)]
                fin_ = [a[np.isfinite(a)] for a in arrs_]
                nonint = sum(int(np.count_nonzero(a != np.round(a))) for a in fin_)
                maxabs = max([float(np.max(np.abs(a))) for a in fin_ if a.size] or [0.0])
                if nonint <= 2 and maxabs < 2 ** 40:
                    slack = max(80 * EPS * max(maxabs, tol) * (nonint + 1), 1e-9 * tol)
                    gray = [v for v in imb.values() if abs(v - tol) <= slack]
                    if any(tol / 2 < v < 2 * tol for v in imb.values()) and not gray:
                        self._probe(st, "verdict_demanded_close_to_an_explicit_tolerance")
            if tol == 0.0:
                # an explicit zero tolerance: imbalances that are mere float noise (far below the smallest booked mass) are not judged,
                # and as soon as any array holds a non-integer value flodym's own partial sums may round: no verdict then
                gray = [v for v in imb.values() if 0.0 < v < 0.1]
                arrs = [f.values for f in sys_.flows.values()] + [a.values for s_ in sys_.stocks.values() for a in (s_.inflow, s_.outflow)]
                if any(np.any(a[np.isfinite(a)] != np.round(a[np.isfinite(a)])) for a in arrs):
                    # non-integer values around: "pass" cannot be demanded (flodym's partial sums may round), but an imbalance far above
                    # the rounding noise (a few ulp of the largest value; the default tolerance is 100 ulp) must still be reported
                    noise = ref_default_tolerance(sys_) / 8
                    if not (noise == noise and max(imb.values(), default=0.0) >= noise):
                        gray = gray or [0.0]
                    else:
                        gray = []
            if gray:
                self._probe(st, "verdict_in_gray_zone_skipped")
                return
            expect_pass = all(v <= tol for v in imb.values())
        with LogCapture() as cap:
            try:
                # the ways a caller writes it: keywords or positions, a Python bool or what numpy / a table cell hands over
                style = (st.step + int(bool(op["raise"])) + len(sys_.flows)) % 4
                flag = [bool(op["raise"]), np.bool_(bool(op["raise"])), int(bool(op["raise"])), bool(op["raise"])][style]
                kwd = {}
                if op["tol"] is not None or (st.step + len(sys_.flows)) % 3 == 0:
                    kwd["tolerance"] = op["tol"]
                if not op["raise"] or (st.step + len(sys_.stocks)) % 3 == 0:
                    kwd["raise_error"] = flag
                if style == 3:
                    sys_.check_mass_balance(op["tol"], flag)
                elif len(kwd) < 2:
                    # what the documented defaults are for (tolerance scaled to the largest magnitude; raise on failure): not mentioned
                    self._probe(st, "check_called_with_defaults_left_out")
                    sys_.check_mass_balance(**kwd)
                else:
                    sys_.check_mass_balance(tolerance=op["tol"], raise_error=flag)
                out = ("ret", None)
            except Exception as e:  # noqa
                out = ("raise", exc_class(e))
        warns = cap.warnings()
        st.log.add("verdict", expect_pass=expect_pass, outcome=out[0], exc=out[1], nwarn=len(warns))
        st.sig.append(("mb", tags["mode"], tags["tol"], expect_pass, out[0], tags["no_stocks"], tags["idle_process"], has_nan))
        st.states.add(jhash([expect_pass, has_nan, tags["no_stocks"], tags["idle_process"], len(st.undo)]))
        if tags["no_stocks"]:
            self._probe(st, "system_without_stocks")
        if tags["idle_process"]:
            self._probe(st, "process_without_flow_or_stock")
        what = (f"(mode {tags['mode']}, {tags['tol']} tolerance {tol:.3g}, reference max imbalance "
                f"{ {k: (v if v == v else 'nan') for k, v in imb.items()} })")
        if expect_pass:
            self._cnt(st, "balanced-system-passes")
            if any(np.any(f.values != 0) for f in sys_.flows.values()):
                self._probe(st, "balanced_system_with_nonzero_flows")
            if any(v > 0 for v in imb.values()):
                self._probe(st, "pass_with_nonzero_imbalance_below_tolerance")
            if out[0] == "raise":
                raise Violation("balanced-system-passes", f"check_mass_balance raised {out[1]} on a balanced system {what}",
                                cls="balanced-system-passes", **tags)
            if warns:
                raise Violation("balanced-system-passes", f"check_mass_balance logged a warning on a balanced system {what}: {warns[0][:80]}",
                                cls="balanced-system-passes", **tags)
            if getattr(st, "healed", False):
                self._probe(st, "pass_after_heal")
        else:
            clause = "nan-never-success" if has_nan else "violation-reported"
            self._cnt(st, clause)
            if op["raise"]:
                if out[0] != "raise":
                    raise Violation(clause, f"check_mass_balance(raise_error=True) returned normally on an unbalanced system {what}",
                                    cls=clause, **tags)
            else:
                if out[0] == "raise":
                    raise Violation(clause, f"check_mass_balance(raise_error=False) raised {out[1]} {what}", cls=clause + ":raised", **tags)
                if not warns:
                    raise Violation(clause, f"check_mass_balance(raise_error=False) logged no warning on an unbalanced system {what}",
                                    cls=clause, **tags)

    def _judge_check_flows(self, st, op):
        sys_, world = st.sys, st.world
        exceptions = []
        for e in op.get("exceptions", []):
            if "flow" in e:
                exceptions.append(st.flow_names[e["flow"] % len(st.flow_names)])
            else:
                exceptions.append(world["processes"][e["process"] % len(world["processes"])])
        tol = ref_default_tolerance(sys_)
        any_nan = tol != tol
        flagged, clean, unspecified = [], [], []
        for name, f in zip(st.flow_names, world["flows"]):
            fl = sys_.flows[name]
            if name in exceptions or fl.from_process.name in exceptions or fl.to_process.name in exceptions:
                clean.append(name)
                continue
            v = fl.values
            if np.any(np.isnan(v)):
                flagged.append(name)
                continue
            if any_nan:
                (unspecified if np.any(v < 0) else clean).append(name)
                continue
            neg = v[v < 0]
            if neg.size and np.any(neg < -2 * tol):
                flagged.append(name)
            elif neg.size and np.any(neg < -tol / 2):
                unspecified.append(name)
            else:
                clean.append(name)
        tags = dict(mode="raise" if op["raise"] else "warn", no_stocks=not sys_.stocks, nan=any_nan, n_flagged=len(flagged))
        with LogCapture() as cap:
            try:
                style = (st.step + int(bool(op["raise"])) + len(exceptions)) % 4
                flag = [bool(op["raise"]), np.bool_(bool(op["raise"])), int(bool(op["raise"])), bool(op["raise"])][style]
                kwd = {}
                if exceptions or (st.step + len(sys_.flows)) % 3 == 0:
                    kwd["exceptions"] = list(exceptions)
                if op["raise"] or (st.step + len(sys_.stocks)) % 3 == 0:
                    kwd["raise_error"] = flag
                if op.get("verbose") or st.step % 2:
                    kwd["verbose"] = bool(op.get("verbose"))
                if style == 3:
                    sys_.check_flows(list(exceptions), flag, bool(op.get("verbose")))
                elif len(kwd) < 3:
                    # documented defaults (no exceptions, warn instead of raise, terse messages) left out
                    self._probe(st, "check_called_with_defaults_left_out")
                    sys_.check_flows(**kwd)
                else:
                    sys_.check_flows(exceptions=list(exceptions), raise_error=flag, verbose=bool(op.get("verbose")))
                out = ("ret", None)
            except Exception as e:  # noqa
                out = ("raise", exc_class(e))
        warns = cap.warnings()
        st.log.add("flows-verdict", flagged=len(flagged), outcome=out[0], exc=out[1], nwarn=len(warns))
        st.sig.append(("cf", tags["mode"], len(flagged) > 0, out[0], tags["no_stocks"], any_nan, bool(exceptions)))
        self._cnt(st, "check-flows-exact")
        if exceptions:
            self._probe(st, "check_flows_with_exceptions")
        if op["raise"]:
            if flagged and out[0] != "raise":
                raise Violation("check-flows-exact", f"check_flows(raise_error=True) returned although flows {flagged} hold NaN / negative entries",
                                cls="check-flows-exact:missed", **tags)
            if not flagged and not unspecified and out[0] == "raise":
                raise Violation("check-flows-exact", f"check_flows(raise_error=True) raised {out[1]} although no non-excepted flow holds NaN or "
                                                     f"an entry below -tolerance", cls="check-flows-exact:false-alarm", **tags)
            return
        if out[0] == "raise" and "raise_error" not in kwd and style != 3:
            # the mode was not mentioned: the property does not say which one is the default - raising is then fine iff something is flagged
            if not flagged and not unspecified:
                raise Violation("check-flows-exact", f"check_flows() raised {out[1]} although no non-excepted flow holds NaN or an entry below "
                                                     f"-tolerance", cls="check-flows-exact:false-alarm", **tags)
            return
        if out[0] == "raise":
            raise Violation("check-flows-exact", f"check_flows(raise_error=False) raised {out[1]}", cls="check-flows-exact:raised", **tags)
        text = "\n".join(warns)
        for name in flagged:
            if name not in text:
                raise Violation("check-flows-exact", f"flow '{name}' holds NaN / a negative entry but no warning names it",
                                cls="check-flows-exact:missed", **tags)
        for name in clean:
            if any(name != other and name in other for other in st.flow_names):
                continue
            if name in text:
                raise Violation("check-flows-exact", f"a warning names flow '{name}', which is excepted or holds neither NaN nor an entry below "
                                                     f"-tolerance", cls="check-flows-exact:false-alarm", **tags)

    # ---------------- C19
    def _c19_step(self, st, op):
        sys_, world = st.sys, st.world
        kind = op["op"]
        if kind == "reassemble":
            from flodym import MFASystem
            names = list(sys_.processes)
            rs = np.random.RandomState(op["order"] % 2 ** 31)
            order = [names[i] for i in rs.permutation(len(names))]
            if order == names and len(names) > 1:
                order = names[::-1]
            st.sys = MFASystem(dims=sys_.dims, processes={n: sys_.processes[n] for n in order}, flows=dict(sys_.flows), stocks=dict(sys_.stocks),
                               parameters=dict(sys_.parameters))
            st.proc_order = order
            self._probe(st, "system_reassembled_with_processes_in_another_order")
            return
        if kind == "user_arrays":
            # a model author builds the stock objects by hand from own StockArrays (default array name: "unnamed")
            from flodym import StockArray
            for s in world["stocks"]:
                so = sys_.stocks[s["name"]]
                kw = {"dims": so.dims, "name": so.name, "process": so.process, "time_letter": so.time_letter,
                      "inflow": StockArray(dims=so.dims), "outflow": StockArray(dims=so.dims, name="my outflow"), "stock": StockArray(dims=so.dims)}
                if op.get("relabel") and len(so.dims.dim_list) >= 2:
                    # one of the author's arrays is over the stock's letters and lengths but carries its own labels and dimension name
                    # (another scenario's regions): the stock accepts it, and every export must show that array under *its* labels
                    from flodym import Dimension, DimensionSet
                    dl_ = list(so.dims)
                    d_ = dl_[-1]
                    if d_.dtype is not None and all(isinstance(x, (int, float, str)) and not isinstance(x, bool) for x in d_.items):
                        items = [("alt " + x) if isinstance(x, str) else (x + 5000) for x in d_.items]
                        dl_[-1] = Dimension(name=d_.name + " (alt)", letter=d_.letter, items=items, dtype=d_.dtype)
                        kw[op["relabel"]] = StockArray(dims=DimensionSet(dim_list=dl_), name="alt labels")
                        self._probe(st, "stock_array_with_own_labels")
                if s["lt"] is not None:
                    kw["lifetime_model"] = so.lifetime_model
                if s["cls"] == "stockdriven":
                    kw["solver"] = so.solver
                sys_.stocks[s["name"]] = type(so)(**kw)
            self._probe(st, "stocks_with_user_supplied_arrays")
            return
        if kind == "fill":
            rs = np.random.RandomState(op["vseed"] % 2 ** 31)
            k = 0
            for r, a in [("flow", sys_.flows[n]) for n in st.flow_names] + \
                        [(r, getattr(sys_.stocks[s["name"]], r)) for s in world["stocks"] for r in ("stock", "inflow", "outflow")]:
                size = a.values.size
                new = (5000.25 + 1000 * k + 0.5 * rs.permutation(size)).reshape(a.values.shape)
                if op.get("inf") and size >= 2 and (op["inf"] + k) % 2 == 0:
                    # unbounded entries are values like any other
                    flat = new.reshape(-1)
                    flat[op["inf"] % size] = np.inf
                    flat[(op["inf"] + 1) % size] = -np.inf
                    self._probe(st, "exported_array_holds_plus_and_minus_inf")
                if a.values.ndim >= 2 and (op["vseed"] + k) % 3 == 0:
                    # the model stored a Fortran-ordered / transposed result through the public setter
                    a.set_values(np.asfortranarray(new))
                    self._probe(st, "exported_array_not_c_contiguous")
                else:
                    a.values[...] = new
                k += 1
            return
        before = self._snapshot(sys_)
        fault = op.get("fault")
        tags = dict(op=kind, fault=None if not fault else fault["kind"], zero_d=any(len(f["dims"]) == 0 for f in world["flows"]),
                    form=op.get("type") if kind == "to_dict" else kind, no_stocks=not world["stocks"])
        last = getattr(st, "last_target", {})
        reuse = last.get(kind) if op.get("reuse") else None
        if op.get("reuse") == "other_csv" and kind in ("flows_csv", "stocks_csv"):
            # flows and stocks of one system go into one directory
            reuse = last.get({"flows_csv": "stocks_csv", "stocks_csv": "flows_csv"}[kind]) or reuse
            if reuse:
                self._probe(st, "flows_and_stocks_exported_into_one_directory")
        if reuse:
            self._probe(st, "export_into_location_of_an_earlier_export")
        st.pre_listing = set(os.listdir(reuse)) if (reuse and os.path.isdir(reuse)) else set()
        st.pre_bytes = {}
        for x in st.pre_listing:
            fp = os.path.join(reuse, x)
            if os.path.isfile(fp):
                with open(fp, "rb") as fh:
                    st.pre_bytes[x] = fh.read()
        fired, out, result, target = self._export(st, op, fault, target=reuse)
        last[kind] = target
        st.last_target = last
        st.log.add("outcome", outcome=out[0], exc=out[1], fired=sorted(fired))
        st.states.add(jhash([kind, op.get("type") if kind == "to_dict" else None, op.get("dir"), bool(op.get("reuse")), tags["fault"], sorted(fired), out[0]]))
        st.sig.append((kind, op.get("type") if kind == "to_dict" else None, op.get("with_io"), op.get("dir"), tags["fault"],
                       bool(fired), out[0], len(world["flows"]), len(world["stocks"]), tags["zero_d"]))
        # E1 the system is unchanged
        self._cnt(st, "export-leaves-system-unchanged")
        diff = self._same_snapshot(before, self._snapshot(sys_))
        if diff:
            raise Violation("export-leaves-system-unchanged", f"{kind} ({out[0]}) changed '{diff}' of the system", cls="export-leaves-system-unchanged", **tags)
        if fired:
            for f in fired:
                self._fault(st, f)
            if any(f.startswith(("open_fail", "write_fail", "makedirs_fail")) for f in fired):
                self._cnt(st, "failed-write-surfaces")
                if out[0] == "ret":
                    # returning normally is acceptable only if the export is nevertheless complete (an implementation may retry)
                    try:
                        self._judge_export(st, op, result, target, tags)
                    except Violation as v:
                        raise Violation("failed-write-surfaces", f"{kind} returned normally although an injected {sorted(fired)} hit one of its "
                                                                 f"writes, and the export is incomplete: {v.detail}", cls="failed-write-surfaces", **tags)
            # E4 recovery: repeat without fault into the same location
            fired2, out2, result2, target2 = self._export(st, op, None, target=target)
            self._cnt(st, "export-recovers")
            if out2[0] != "ret":
                raise Violation("export-recovers", f"repeating {kind} into the same location after the fault raised {out2[1]}", cls="export-recovers", **tags)
            self._judge_export(st, op, result2, target2, dict(tags, recovery=True))
            diff = self._same_snapshot(before, self._snapshot(sys_))
            if diff:
                raise Violation("export-leaves-system-unchanged", f"{kind} repeated after a fault changed '{diff}' of the system",
                                cls="export-leaves-system-unchanged", **tags)
            return
        if out[0] == "interrupt":
            return
        self._cnt(st, "export-complete")
        if out[0] != "ret":
            raise Violation("export-complete", f"{kind} raised {out[1]} with no fault injected "
                                               f"(form {tags['form']}, 0-d flow present: {tags['zero_d']})", cls="export-complete:raised", **tags)
        self._judge_export(st, op, result, target, tags)

    def _export(self, st, op, fault, target=None):
        """runs one export; returns (set of fired fault names, (outcome, exc), result object, target path)"""
        sys_ = st.sys
        kind = op["op"]
        fired = set()
        if target is None:
            n = len(os.listdir(st.tmp))
            if op.get("dir") == "existing":
                target = os.path.join(st.tmp, f"out{n}")
                os.makedirs(target)
                with open(os.path.join(target, "unrelated.txt"), "w") as fh:
                    fh.write("keep me")
                st.unrelated_dirs = getattr(st, "unrelated_dirs", set()) | {target}
            elif op.get("dir") == "nested":
                target = os.path.join(st.tmp, f"out{n}", "deep", "er")
            else:
                target = os.path.join(st.tmp, f"out{n}")
            if kind == "pickle":
                os.makedirs(st.tmp, exist_ok=True)
                target = os.path.join(st.tmp, f"export{n}.pickle")
                if op.get("dir") == "existing":
                    target = f"export_bare{n}.pickle"  # a bare file name, written into the current directory
        counter = {"open": 0}
        real_open = open

        class FaultyFile:
            def __init__(self, fh, budget, code):
                self._fh, self._budget, self._code = fh, budget, code

            def write(self, data):
                n = len(data)
                if n > self._budget:
                    part = data[:self._budget]
                    if part:
                        self._fh.write(part)
                    self._budget = 0
                    fired.add("write_fail_" + fault["errno"])
                    raise OSError(self._code, os.strerror(self._code))
                self._budget -= n
                return self._fh.write(data)

            def __getattr__(self, name):
                return getattr(self._fh, name)

            def __enter__(self):
                return self

            def __exit__(self, *a):
                self._fh.close()
                return False

            def __iter__(self):
                return iter(self._fh)

        def sim_open(file, mode="r", *a, **k):
            path_ = os.fspath(file) if isinstance(file, (str, bytes, os.PathLike)) else None
            mine = path_ is not None and (str(path_).startswith(st.tmp) or not os.path.isabs(str(path_))) and any(c in mode for c in "wax")
            if mine:
                counter["open"] += 1
                if fault and fault["kind"] == "open_fail" and counter["open"] == fault["nth"]:
                    code = getattr(_errno, fault["errno"])
                    fired.add("open_fail_" + fault["errno"])
                    raise OSError(code, os.strerror(code), path_)
                fh = real_open(file, mode, *a, **k)
                if fault and fault["kind"] == "write_fail" and counter["open"] == fault["nth"]:
                    return FaultyFile(fh, fault["after"], getattr(_errno, fault["errno"]))
                return fh
            return real_open(file, mode, *a, **k)

        class OsProxy:
            path = os.path

            def __getattr__(self, name):
                return getattr(os, name)

            def makedirs(self, p, *a, **k):
                if fault and fault["kind"] == "makedirs_fail":
                    fired.add("makedirs_fail_EACCES")
                    raise OSError(_errno.EACCES, os.strerror(_errno.EACCES), p)
                return os.makedirs(p, *a, **k)

        import pandas.io.common as pic

        def thunk():
            if kind == "to_dict":
                ty = op.get("type", "numpy")
                if ty == "numpy" and op.get("dir") == "nested":
                    return dw.convert_to_dict(sys_)  # documented default form
                return dw.convert_to_dict(sys_, ty) if op.get("dir") == "existing" else dw.convert_to_dict(sys_, type=ty)
            if kind == "pickle":
                return dw.export_mfa_to_pickle(sys_, target)
            if kind == "flows_csv":
                return dw.export_mfa_flows_to_csv(sys_, target)
            if kind == "stocks_csv":
                if not op.get("with_io") and op.get("dir") != "new":
                    return dw.export_mfa_stocks_to_csv(sys_, target)  # documented default: stock levels only
                if op.get("dir") == "existing":
                    return dw.export_mfa_stocks_to_csv(sys_, target, bool(op.get("with_io")))
                return dw.export_mfa_stocks_to_csv(mfa=sys_, export_directory=target, with_in_and_out=bool(op.get("with_io")))
            if kind == "to_dfs":
                return make_definition(st.world).to_dfs()
            raise AssertionError(kind)

        crash = None
        result = None
        cwd = os.getcwd()
        try:
            os.chdir(st.tmp)
            pic.open = sim_open
            dw.open = sim_open
            dw.os = OsProxy()
            if fault and fault["kind"] == "interrupt":
                crash = Crash(at=fault["at"], flavour=fault.get("flavour", "mem"))
                with crash:
                    result = thunk()
            else:
                result = thunk()
            out = ("ret", None)
        except INTERRUPTS:
            out = ("interrupt", None)
            fired.add("interrupt_" + fault.get("flavour", "mem"))
        except Exception as e:  # noqa
            out = ("raise", exc_class(e))
        finally:
            if "open" in pic.__dict__:
                del pic.open
            if "open" in dw.__dict__:
                del dw.open
            dw.os = os
            os.chdir(cwd)
        if not os.path.isabs(target):
            target = os.path.join(st.tmp, target)
        return fired, out, result, target

    def _judge_export(self, st, op, result, target, tags):
        try:
            return self._judge_export_inner(st, op, result, target, tags)
        except (AttributeError, KeyError, TypeError, IndexError) as e:
            raise Violation("export-complete", f"{op['op']}: the exported structure lacks an entry or has another form than documented ({exc_class(e)}: {str(e)[:60]})",
                            cls="export-complete:malformed", **tags)

    def _judge_export_inner(self, st, op, result, target, tags):
        sys_, world = st.sys, st.world
        kind = op["op"]

        def bad(msg, **kw):
            raise Violation("export-complete", msg, cls="export-complete:" + kind, **dict(tags, **kw))

        def same_by_df(arr, df, what):
            if len(arr.dims) == 0:
                # a 0-dimensional array has no labels to read back by; the table must hold its value
                try:
                    ok = list(df["value"]) == [float(arr.values)]
                except Exception:  # noqa
                    ok = False
                if not ok:
                    bad(f"{what}: the exported table of a 0-dimensional array does not hold its value")
                return
            try:
                back = FlodymArray.from_df(dims=arr.dims, df=df)
            except Exception as e:  # noqa
                bad(f"{what}: the exported table cannot be read back with from_df ({exc_class(e)})")
            if not np.array_equal(back.values, arr.values):
                bad(f"{what}: reading the exported table back with from_df gives other values")

        if kind in ("to_dict", "pickle"):
            if kind == "pickle":
                try:
                    with open(target, "rb") as fh:
                        d = pickle.load(fh)
                except Exception as e:  # noqa
                    bad(f"the pickle file cannot be loaded ({exc_class(e)})")
                form = "numpy"
            else:
                d = result
                form = op.get("type", "numpy")
            if not isinstance(d, dict):
                bad("export is not a dict")
            if d.get("dimension_names") != {x["letter"]: x["name"] for x in world["dims"]}:
                bad("dimension_names wrong")
            di = d.get("dimension_items", {})
            if {k: list(v) for k, v in di.items()} != {x["name"]: list(x["items"]) for x in world["dims"]}:
                bad("dimension_items wrong")
            if list(d.get("processes", [])) != list(getattr(st, "proc_order", None) or world["processes"]):
                bad("process list wrong")
            if sorted(d.get("flows", {})) != sorted(st.flow_names):
                bad(f"flows {sorted(d.get('flows', {}))} instead of {sorted(st.flow_names)}")
            for name, f in zip(st.flow_names, world["flows"]):
                arr = sys_.flows[name]
                if form == "numpy":
                    if not np.array_equal(np.asarray(d["flows"][name]), arr.values):
                        bad(f"flow '{name}' values differ")
                else:
                    same_by_df(arr, d["flows"][name], f"flow '{name}'")
                if tuple(d["flow_dimensions"][name]) != tuple(f["dims"]):
                    bad(f"flow_dimensions of '{name}'")
                if tuple(d["flow_processes"][name]) != (world["processes"][f["from"]], world["processes"][f["to"]]):
                    bad(f"flow_processes of '{name}'")
            if sorted(d.get("stocks", {})) != sorted(s["name"] for s in world["stocks"]):
                bad("stocks missing")
            for s in world["stocks"]:
                arr = sys_.stocks[s["name"]].stock
                if form == "numpy":
                    if not np.array_equal(np.asarray(d["stocks"][s["name"]]), arr.values):
                        bad(f"stock '{s['name']}' values differ")
                else:
                    same_by_df(arr, d["stocks"][s["name"]], f"stock '{s['name']}'")
                if tuple(d["stock_dimensions"][s["name"]]) != tuple(s["dims"]):
                    bad(f"stock_dimensions of '{s['name']}'")
                want = None if s["process"] is None else world["processes"][s["process"]]
                if d["stock_processes"].get(s["name"]) != want:
                    bad(f"stock_processes of '{s['name']}' is {d['stock_processes'].get(s['name'])} instead of {want}")
            return
        if kind in ("flows_csv", "stocks_csv"):
            expected = {}
            if kind == "flows_csv":
                for name in st.flow_names:
                    fn = to_valid_file_name(name) + ".csv"
                    if fn in expected:
                        bad(f"two flows with names that stay distinct after sanitising are written to the same file {fn}: no one file per flow")
                    expected[fn] = sys_.flows[name]
            else:
                for s in world["stocks"]:
                    so = sys_.stocks[s["name"]]
                    expected[f"{to_valid_file_name(s['name'])}_stock.csv"] = so.stock
                    if op.get("with_io"):
                        expected[f"{to_valid_file_name(s['name'])}_inflow.csv"] = so.inflow
                        expected[f"{to_valid_file_name(s['name'])}_outflow.csv"] = so.outflow
            if not os.path.isdir(target):
                bad(f"export directory was not created")
            have = set(x for x in os.listdir(target) if x != "unrelated.txt")
            pre = getattr(st, "pre_listing", set())
            if not set(expected) <= have or (have - pre) - set(expected):
                bad(f"directory holds {sorted(have)} (before the export: {sorted(pre)}) instead of {sorted(expected)}")
            for x, blob in getattr(st, "pre_bytes", {}).items():
                # what an earlier export (of other quantities) left in this directory is not this export's to remove or rewrite
                if x in expected or getattr(st, "file_origin", {}).get((target, x), kind) == kind:
                    continue  # its own earlier products are the exporter's business; those of the other export are not
                fp = os.path.join(target, x)
                if not os.path.isfile(fp):
                    bad(f"file {x} of an earlier export into this directory disappeared")
                with open(fp, "rb") as fh:
                    if fh.read() != blob:
                        bad(f"file {x} of an earlier export into this directory was rewritten")
            for fname, arr in expected.items():
                if len(arr.dims) == 0:
                    continue
                if any(d.dtype is None for d in arr.dims):
                    continue  # untyped labels of mixed type (1, 2, "3+") come back from a text file as text: nothing to read back by
                try:
                    table = pd.read_csv(os.path.join(target, fname), dtype=str, keep_default_na=False)
                except Exception as e:  # noqa  (an empty or torn file left behind by an export that returned normally)
                    bad(f"file {fname}: the exported file cannot be parsed as CSV ({exc_class(e)})")
                same_by_df(arr, table, f"file {fname}")
            if target in getattr(st, "unrelated_dirs", set()) and not os.path.exists(os.path.join(target, "unrelated.txt")):
                bad("an unrelated file in the export directory disappeared")
            if not hasattr(st, "file_origin"):
                st.file_origin = {}
            for fname in expected:
                st.file_origin[(target, fname)] = kind
            return
        if kind == "to_dfs":
            d = make_definition(world)
            dump = d.model_dump()
            want_kinds = [k for k, v in dump.items() if v]
            if sorted(result) != sorted(want_kinds):
                bad(f"to_dfs tables {sorted(result)} instead of {sorted(want_kinds)}")
            for k in want_kinds:
                df = result[k]
                if len(df) != len(dump[k]):
                    bad(f"to_dfs['{k}'] has {len(df)} rows for {len(dump[k])} definitions")
                for n, item in enumerate(dump[k]):
                    row = df.iloc[n]
                    fields = {"name": item} if isinstance(item, str) else item
                    for fk, fv in fields.items():
                        cell = row[fk]
                        ok = (cell == fv) if not isinstance(fv, (tuple, list)) else tuple(cell) == tuple(fv)
                        if fv is None:
                            ok = cell is None  # the field value itself, not pandas' stand-in for a missing number
                        if not ok:
                            bad(f"to_dfs['{k}'] row {n} field {fk} is {cell!r} instead of {fv!r}")

    # ------------------------------------------------------------------ minimisation
    def shrink(self, run):
        w = run["world"]
        for key in ("params", "stocks", "flows"):
            lo = 1 if key == "flows" else 0
            if len(w[key]) > lo:
                for k in range(len(w[key])):
                    w2 = _copy.deepcopy(w)
                    del w2[key][k]
                    yield {"world": w2, "ops": run["ops"]}
        if len(w["processes"]) > 2:
            used = {f["from"] for f in w["flows"]} | {f["to"] for f in w["flows"]} | {s["process"] for s in w["stocks"] if s["process"] is not None}
            last = len(w["processes"]) - 1
            if last not in used:
                w2 = _copy.deepcopy(w)
                w2["processes"] = w2["processes"][:-1]
                yield {"world": w2, "ops": run["ops"]}
        if w["build"]["path"] not in ("direct",) and not run["ops"]:
            pass
        for k, op in enumerate(run["ops"]):
            if isinstance(op, dict) and op.get("fault") and op.get("op") != "fault":
                ops = _copy.deepcopy(run["ops"])
                del ops[k]["fault"]
                yield {"world": w, "ops": ops}
            if isinstance(op, dict) and op.get("park"):
                ops = _copy.deepcopy(run["ops"])
                del ops[k]["park"]
                yield {"world": w, "ops": ops}

    def class_key(self, tags):
        return (tags.get("cls"), tags.get("path"), tags.get("no_stocks"), tags.get("idle_process"), tags.get("nan"), tags.get("zero_d"),
                tags.get("form"), tags.get("field"))

    # ------------------------------------------------------------------ evidence
    def rule(self, prop):
        base = ("one run = a generated definition program (processes with spaces / arrows / punctuation, 1-8 flows incl. parallel and opposing ones "
                "with name overrides, each over a random dimension subset in random order incl. 0-d, 0-3 stocks of every class / lifetime model / "
                "solver with or without process, 0-4 parameters, a naming function) built through direct helpers | from_data_reader | from_csv | "
                "from_excel (dimension files as one row or one column, with or without the name header, sheets named or first sheet with a decoy "
                "second sheet, dict insertion orders permuted). ")
        if prop == "C18":
            return base + ("Fault-free builds are compared field by field with the definition; each injected definition / file fault (undefined "
                           "dimension or process, missing / unused lifetime model, time not first, sysenv not first, 2-D dimension file, missing file "
                           "or sheet, dropped / duplicated parameter row) must be refused. distinct = distinct (path, sheets, faults, outcome, sizes, "
                           "naming); non-trivial = an oracle clause was evaluated")
        if prop == "C02":
            return base + ("Then a conserved booking history: integer-mass parcels on closed walks through sysenv, optionally parked in a stock and "
                           "released at a later time label; stocks without a process get arbitrary content; conservation faults on single entries "
                           "(+-delta >= 2 tol, +-delta <= tol/2, NaN, negative entries) and heals; after every batch check_mass_balance / check_flows "
                           "in both modes, explicit and default tolerance, judged against a by-label reference (explicit loops, math.fsum). Verdicts "
                           "inside (tol/2, 2 tol) are skipped. 'entrysweep' tasks fault every entry of every flow / stock array of a sampled system")
        return base + ("Then every flow / stock is filled with pairwise distinct values and export operations run (convert_to_dict numpy / pandas, pickle, "
                       "flows / stocks CSV into new / existing / nested directories, to_dfs) with disk faults through the open() seen by pandas.io.common "
                       "and flodym.export.data_writer (open fails at the k-th file, write fails after n bytes), makedirs failures and interrupts; "
                       "'iosweep' tasks fault every open() index x a grid of byte budgets. After a fault the export is repeated into the same location")

    def components(self, prop):
        return {"real": ["flodym (mfa_definition, mfa_system, processes, flow_helper, stock_helper, data_reader, export.data_writer, flodym_arrays)",
                         "pandas / openpyxl / pickle", "the file system under a scratch directory"],
                "stubbed": ["open() and os.makedirs as seen by pandas.io.common and flodym.export.data_writer (thin failing wrappers)",
                            "the model's bookings (generated parcels)", "root logger (captured)"],
                "not_run": ["plotting (sankey, array plotter)"]}

    def assumptions(self, prop):
        if prop == "C02":
            return ["all booked masses are integers <= 2^20 in float64: every sum is exact and a fault-free history has exactly zero imbalance",
                    "the expected verdict always comes from the by-label reference over the current arrays, never from the way the history was built",
                    "with a NaN present only NaN-flagging is asserted for check_flows (its tolerance is then undefined)",
                    "a warning 'names' a flow if the flow's name occurs in the message text"]
        if prop == "C19":
            return ["an export during which an injected open/write/makedirs error fired must not return normally",
                    "the content of files left behind by a failed export is not judged; the repeated export is",
                    "CSV files of 0-dimensional arrays are only required to exist"]
        return ["item tokens survive pandas' CSV type / NA inference unchanged", "faults are judged only as 'some exception, nothing returned'"]


ENGINE = SysSim()
