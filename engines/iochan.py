"""iochan - the import channel: one table travels producer -> (faults) -> medium -> consumer.
C11 = benign configuration (permutations, all layouts/headers/media), C12 = harmful record faults,
I/O faults and interrupts (DESIGN.md 5.4)."""

import copy as _copy
import itertools
import os
import shutil
import tempfile
import warnings

import numpy as np
import pandas as pd

from simkit.engine import Engine, jhash
from simkit.kernel import Crash, EventLog, INTERRUPTS, Rng, Violation, exc_class, vdig

from flodym import Dimension, DimensionSet, FlodymArray, Parameter
from flodym.data_reader import CSVParameterReader, ExcelParameterReader

NAMES = {"a": "Alpha", "b": "Beta", "c": "Gamma", "d": "Delta", "t": "Time"}
SENTINEL = -77.0


# ============================================================================= world
def gen_world(rng, prop, long_dim=False):
    n = rng.randint(1, 4)
    letters = rng.sample("abcdt", n)
    dims = []
    for k, letter in enumerate(letters):
        ln = rng.choice([1, 2, 2, 3, 3, 4])
        kind = rng.choice(["str", "int", "untyped", "untyped_int"])
        if letter == "t":
            kind = rng.choice(["int", "untyped_int"])
        if kind in ("int", "untyped_int"):
            items = [(1900 if k % 2 == 0 else 2400) + 100 * k + j for j in range(ln)]  # inside / outside the 1700..2300 "calendar year" window
            dt = "int" if kind == "int" else None
        else:
            items = [f"{letter}{j}x" for j in range(ln)]
            dt = "str" if kind == "str" else None
            if kind == "str" and rng.chance(0.25):
                items = [str(3000 + 100 * k + j) for j in range(ln)]  # a str-typed dimension with number-like items
        if len(items) >= 2 and rng.chance(0.4):
            items = rng.shuffled(items)  # items are labels: their order in the dimension need not be ascending
        dims.append({"letter": letter, "name": NAMES[letter], "items": items, "dtype": dt})
    intlike = lambda d: isinstance(d["items"][0], int)  # noqa
    if not long_dim and rng.chance(0.25):
        # a counter dimension (ages, cohorts): 0..n-1, the numbers pandas gives to rows
        cand = [d for d in dims if intlike(d)]
        if cand:
            d = rng.choice(cand)
            d["items"] = list(range(len(d["items"])))
            if rng.chance(0.3):
                d["items"] = rng.shuffled(d["items"])
    if not long_dim and len(dims) >= 2 and rng.chance(0.15):
        # nested item sets: the item sets are pairwise different, but one dimension's labels all occur in another dimension as well
        i, j = rng.sample(range(len(dims)), 2)
        if intlike(dims[i]) == intlike(dims[j]) and not any(str(x).isdigit() for x in dims[i]["items"] + dims[j]["items"] if isinstance(x, str)) \
                and set(dims[i]["items"]).isdisjoint(dims[j]["items"]):
            dims[j]["items"] = list(dims[i]["items"]) + dims[j]["items"][:rng.randint(1, 2)]
            if rng.chance(0.3):
                dims[j]["items"] = rng.shuffled(dims[j]["items"])
    if long_dim:
        n_long = rng.randint(33000, 40000)
        dims = dims[:rng.randint(0, 1)]
        for d in dims:
            d["items"] = d["items"][:2]
        dims.append({"letter": "z", "name": "Zeta", "items": list(range(100000, 100000 + n_long)), "dtype": rng.choice(["int", None])})
    size = 1
    for d in dims:
        size *= len(d["items"])
    zeros = sorted(rng.sample(range(size), rng.randint(1, max(1, size // 3)))) if (rng.chance(0.3) and size > 1 and not long_dim) else []
    wide = None
    if len(dims) >= 1 and rng.chance(0.35) and not long_dim:
        wide = rng.randint(0, len(dims) - 1)
    header = rng.weighted([("names", 4), ("letters", 2), ("mixed", 2), ("items", 2)])
    layout = {"wide": wide, "index": rng.weighted([(False, 6), (True, 3), ("unnamed", 2)]), "header": header,
              "value_name": rng.choice(["value", "val", "Amount", "x"]), "omit_single": rng.chance(0.4),
              "producer": rng.choice(["to_df", "own"]), "sparse": bool(zeros) and rng.chance(0.6)}
    medium = rng.weighted([("df", 5), ("csv", 3), ("csv_reader", 2), ("excel_reader", 1)])
    if long_dim:
        medium = "df"
        layout["header"] = rng.choice(["names", "letters"])
    if wide is not None and dims[wide]["dtype"] is None and isinstance(dims[wide]["items"][0], int):
        medium = "df"  # nothing in a text file says that the column headers are ints
    if any(d["dtype"] == "str" and str(d["items"][0]).isdigit() for d in dims):
        medium = "df"  # number-like text labels do not survive pandas' CSV / Excel type inference (a blank cell turns "3302" into 3302.0)
    consumer = rng.choice(["from_df", "set_values_from_df"]) if medium in ("df", "csv") else "from_df"
    flags = [False, False] if prop == "C11" else [rng.chance(0.4), rng.chance(0.4)]
    # typed dimensions promise a conversion of the labels found in the table: ints written as text, number-like strings given as ints
    layout["label_repr"] = {d["name"]: (rng.choice(["native", "native", "converted"]) if d["dtype"] in ("int", "str") else "native") for d in dims}
    layout["row_index"] = rng.weighted([("range", 4), ("permuted", 2), ("offset", 1), ("repeated", 2)])
    layout["int_values"] = rng.chance(0.15)  # whole-number values in an integer typed column
    layout["blank_headers"] = rng.chance(0.5)
    # a table without a header line, read as if it had one: the first record ends up as the column names (flodym documents that it
    # recognises this when the first column is a dimension whose items are complete only together with the "header")
    layout["headerless"] = bool(prop == "C11" and wide is None and not long_dim and rng.chance(0.12))
    if layout["headerless"]:
        layout["header"], layout["index"] = "items", False
    # "not known" for a whole category: NaN along one complete line of the table (one item of the spread dimension, or one label
    # combination of the others) - entries like any other for to_df
    layout["nan_line"] = rng.randint(1, 10 ** 6) if (prop == "C11" and rng.chance(0.07)) else 0
    layout["axis_name"] = rng.choice([None, None, "name", "letter"])
    # infinite entries (an unbounded capacity, a division by zero upstream) are values like any other
    layout["inf"] = rng.randint(1, 10 ** 6) if (rng.chance(0.08) and not long_dim and not layout["int_values"] and medium != "excel_reader") else 0
    ints = [k for k, d in enumerate(dims) if isinstance(d["items"][0], int)]
    if ints and not long_dim and not layout["inf"] and rng.chance(0.08):
        # values that repeat the labels of one dimension (or the labels plus a fraction): a value column then holds the very numbers
        # that are this dimension's items
        layout["mimic"] = {"dim": rng.choice(ints), "frac": rng.chance(0.5)}
        layout["int_values"] = layout["int_values"] and not layout["mimic"]["frac"]
        zeros = []
        layout["sparse"] = False
    if layout["headerless"] and ints and not long_dim and "mimic" not in layout and rng.chance(0.5):
        # every value is the record's own label plus a tenth: the "header" then holds a label x next to the value x.1, which is
        # how pandas would have renamed a *repeated* header cell - and it is not one
        layout["mimic"] = {"dim": rng.choice(ints), "frac": True}
        layout["int_values"], layout["sparse"], layout["inf"] = False, False, 0
        zeros = []
    return {"dims": dims, "zeros": zeros, "vseed": rng.randint(0, 10 ** 6), "layout": layout, "medium": medium,
            "consumer": consumer, "flags": flags, "storage": rng.weighted([("C", 3), ("F", 2), ("einsum_view", 2), ("sliced", 1)])}


def make_dims(world):
    out = []
    for s in world["dims"]:
        dt = {"int": int, "str": str, None: None}[s["dtype"]]
        out.append(Dimension(name=s["name"], letter=s["letter"], items=list(s["items"]), dtype=dt))
    return DimensionSet(dim_list=out)


def make_values(world, shape):
    size = int(np.prod(shape)) if shape else 1
    rs = np.random.RandomState(world["vseed"] % 2 ** 31)
    vals = 5000.25 + 0.5 * rs.permutation(size)
    if world["layout"].get("int_values"):
        vals = 5000.0 + 2.0 * rs.permutation(size)
    mim = world["layout"].get("mimic")
    if mim and shape:
        its = world["dims"][mim["dim"]]["items"]
        grid = np.indices(shape)[mim["dim"]].reshape(-1)
        vals = np.array([float(its[g]) + ((0.1 if world["layout"].get("headerless") else 0.125) if mim["frac"] else 0.0) for g in grid])
    if world["layout"].get("inf") and size >= 1:
        k1 = world["layout"]["inf"] % size
        vals[k1] = np.inf
        if size >= 2 and world["layout"]["inf"] % 3:
            vals[(k1 + 1 + world["layout"]["inf"] // 7 % (size - 1)) % size] = -np.inf
    for n_, z in enumerate(world["zeros"]):
        # most of the listed entries are exact zeros; every third one is a tiny but non-zero number (a sparse export must keep it)
        vals[z % size] = 0.0 if (n_ % 3 or world["layout"].get("int_values")) else [1e-9, -3e-12, 2.5e-10][n_ % 9 // 3]
    return vals.reshape(shape)


# ============================================================================= frame model
class Frame:
    """our own picture of the table on the medium: columns with roles, rows of cells (None = blank)"""

    def __init__(self, cols, rows):
        self.cols = cols      # dicts: role in dim|value|wide|junk, header, dim (name) / item
        self.rows = rows

    def copy(self):
        return Frame([dict(c) for c in self.cols], [list(r) for r in self.rows])

    def dim_col(self, name):
        for i, c in enumerate(self.cols):
            if c["role"] == "dim" and c["dim"] == name:
                return i
        return None


def frame_from_array(world, dims, X, wide, sparse):
    dl = list(dims)
    cols = [{"role": "dim", "dim": d.name, "header": d.name, "ident": "name"} for k, d in enumerate(dl) if k != wide]
    rows = []
    if wide is None:
        cols.append({"role": "value", "header": "value"})
        for idx in itertools.product(*[range(len(d.items)) for d in dl]):
            v = float(X[idx])
            if sparse and v == 0.0:
                continue
            rows.append([dl[k].items[i] for k, i in enumerate(idx)] + [v])
    else:
        W = dl[wide]
        for it in W.items:
            cols.append({"role": "wide", "item": it, "header": it})
        others = [k for k in range(len(dl)) if k != wide]
        for idx in itertools.product(*[range(len(dl[k].items)) for k in others]):
            row = [dl[k].items[i] for k, i in zip(others, idx)]
            for j in range(len(W.items)):
                full = list(idx)
                full.insert(wide, j)
                row.append(float(X[tuple(full)]))
            rows.append(row)
    return Frame(cols, rows)


def frame_from_df(df, dims, wide):
    """turn what to_df returned into our frame (to_df itself is judged separately)"""
    df = df.reset_index() if (df.index.names != [None] or isinstance(df.index, pd.MultiIndex)) else df
    dl = list(dims)
    names = [d.name for d in dl]
    cols = []
    for c in df.columns:
        if c in names:
            cols.append({"role": "dim", "dim": c, "header": c, "ident": "name"})
        elif wide is not None and c in dl[wide].items:
            cols.append({"role": "wide", "item": c, "header": c})
        else:
            cols.append({"role": "value", "header": c})
    rows = []
    for rec in df.itertuples(index=False, name=None):
        row = []
        for c, v in zip(cols, rec):
            if isinstance(v, (np.integer,)):
                v = int(v)
            elif isinstance(v, (np.floating, float)):
                v = None if v != v else float(v)
            row.append(v)
        rows.append(row)
    return Frame(cols, rows)


def style_headers(frame, world, dims, rng_bits):
    """apply the header style: how each dimension column is identified"""
    style = world["layout"]["header"]
    dl = {d.name: d for d in dims}
    k = 0
    for c in frame.cols:
        if c["role"] == "dim":
            d = dl[c["dim"]]
            if style == "names":
                c["header"], c["ident"] = d.name, "name"
            elif style == "letters":
                c["header"], c["ident"] = d.letter, "name"
            elif style == "mixed":
                c["header"], c["ident"] = (d.letter if (k + rng_bits) % 2 else d.name), "name"
            else:
                # a neutral name, or what pandas makes of a blank header cell
                c["header"], c["ident"] = (f"Unnamed: {k}" if world["layout"].get("blank_headers") else f"col{k}"), "items"
            k += 1
        elif c["role"] == "value":
            c["header"] = world["layout"]["value_name"]


def to_dataframe(frame, index, layout=None, dims=None):
    df, in_index = _to_dataframe(frame, index)
    plain = not in_index
    if layout is None or dims is None:
        return df
    if layout.get("axis_name") and layout.get("wide") is not None and any(c["role"] == "wide" for c in frame.cols):
        # the columns axis carries the name of the dimension spread over it, as after to_df(dim_to_columns=...), pivot or unstack
        wd = list(dims)[layout["wide"]]
        df.columns.name = wd.name if layout["axis_name"] == "name" else wd.letter
    # label representation: what a typed dimension must convert back
    byname = {d.name: d for d in dims}
    if plain:  # no dimension went into the index
        for c in frame.cols:
            if c["role"] != "dim" or layout.get("label_repr", {}).get(c["dim"]) != "converted":
                continue
            d = byname[c["dim"]]
            col = df[c["header"]]
            if col.isna().any():
                continue
            if d.dtype is int:
                df[c["header"]] = [str(int(v)) for v in col]
            elif d.dtype is str and all(str(v).isdigit() for v in col):
                df[c["header"]] = [int(v) for v in col]
        if layout.get("int_values"):
            for c in frame.cols:
                if c["role"] in ("value", "wide") and not df[c["header"]].isna().any() and (df[c["header"]] == np.floor(df[c["header"]])).all():
                    df[c["header"]] = df[c["header"]].astype("int64")
        ri = layout.get("row_index", "range")
        if ri == "permuted" and len(df) > 1:
            df.index = list(np.random.RandomState(len(df)).permutation(len(df)))
        elif ri == "offset":
            df.index = [7 + 3 * i for i in range(len(df))]
        elif ri == "repeated" and len(df) > 1:
            # chunks glued together with pd.concat and no ignore_index: every row label occurs in each chunk
            half = (len(df) + 1) // 2
            df.index = [i % half for i in range(len(df))]
    return df


def _to_dataframe(frame, index):
    headers = [c["header"] for c in frame.cols]
    data = {}
    for i, h in enumerate(headers):
        col = [r[i] for r in frame.rows]
        role = frame.cols[i]["role"]
        if role in ("value", "wide", "junk"):
            data[i] = pd.Series([np.nan if v is None else v for v in col], dtype="float64")
        else:
            if any(v is None for v in col):
                if all(isinstance(v, int) for v in col if v is not None):
                    data[i] = pd.Series([np.nan if v is None else float(v) for v in col], dtype="float64")
                else:
                    data[i] = pd.Series([np.nan if v is None else v for v in col], dtype="object")
            elif any(isinstance(v, (RespInt, RespStr)) for v in col):
                data[i] = pd.Series([_respell(v) for v in col], dtype="object")
            else:
                data[i] = pd.Series(col)
    df = pd.DataFrame(data)
    df.columns = headers
    dimcols = [c["header"] for c in frame.cols if c["role"] == "dim"]
    ncols = len(df.columns)
    df = _index_dims(df, frame, index, dimcols)
    return df, len(df.columns) != ncols


def _index_dims(df, frame, index, dimcols):
    if index and dimcols and all(c.get("ident") == "name" for c in frame.cols if c["role"] == "dim"):
        df = df.set_index(dimcols)
    elif index and len(dimcols) == 1 and not df[dimcols[0]].isna().any():
        # identified only through its items, held in a single-level index that carries a neutral name
        df = df.set_index(dimcols[0])
        # a neutral name - or none at all where pandas' own row numbers cannot be meant (text labels)
        years = df.index.dtype == np.int64 and len(df) > 0 and df.index.min() >= 1700 and df.index.max() <= 2300
        # ... or where the numbers are calendar years, which nobody's row numbers are (flodym documents this reading)
        df.index.name = None if (index == "unnamed" and (df.index.dtype == object or pd.api.types.is_string_dtype(df.index.dtype) or years)) else "key"
        df.attrs["dims_in_index"] = True
    elif index == "unnamed" and len(dimcols) > 1 and not any(c.get("ident") == "name" for c in frame.cols if c["role"] == "dim") \
            and not df[dimcols].isna().any().any():
        # several dimensions identified only through their items, held in index levels without names
        df = df.set_index(dimcols)
        df.index.names = [None] * len(dimcols)
    return df


class RespInt(int):
    """an int label that the table spells as text ("2000" in a column that otherwise holds 2000)"""


class RespStr(str):
    """a number-like text label that the table holds as a number (7 in a column that otherwise holds "7")"""


def _respell(v):
    if isinstance(v, RespInt):
        return str(int(v))
    if isinstance(v, RespStr):
        return int(v)
    return v


# ============================================================================= faults on the frame
UNKNOWN = {"int": 9999, "str": "zzzq", None: "zzzq"}


def apply_fault(frame, f, dims, st):
    """returns True if the fault changed the frame (fired)"""
    dl = {d.name: d for d in dims}
    kind = f["f"]
    nrows = len(frame.rows)
    if kind in ("permute_rows", "permute_cols"):
        rs = np.random.RandomState(f["seed"] % 2 ** 31)
        if kind == "permute_rows":
            if nrows < 2:
                return False
            order = list(rs.permutation(nrows))
            frame.rows = [frame.rows[i] for i in order]
        else:
            if len(frame.cols) < 2:
                return False
            order = list(rs.permutation(len(frame.cols)))
            frame.cols = [frame.cols[i] for i in order]
            frame.rows = [[r[i] for i in order] for r in frame.rows]
        return True
    if kind in ("drop_row", "drop_item", "dup_row_same", "dup_row_other", "relabel_unknown", "relabel_known", "blank_value", "blank_label"):
        if nrows == 0:
            return False
        i = f["row"] % nrows
        if kind == "drop_item":
            # a whole category is missing from the data: every row that carries this label
            dc = [k for k, c in enumerate(frame.cols) if c["role"] == "dim"]
            if not dc:
                return False
            k = dc[f.get("col", 0) % len(dc)]
            lab = frame.rows[i][k]
            if f.get("target"):  # aimed at one label of one dimension
                hit = [k_ for k_ in dc if frame.cols[k_]["dim"] == f["target"][0]]
                if not hit:
                    return False
                k, lab = hit[0], f["target"][1]
            frame.rows = [r for r in frame.rows if r[k] != lab]
            return True
        if kind == "drop_row":
            del frame.rows[i]
            return True
        valcols = [k for k, c in enumerate(frame.cols) if c["role"] in ("value", "wide")]
        dimcols = [k for k, c in enumerate(frame.cols) if c["role"] == "dim"]
        if kind in ("dup_row_same", "dup_row_other"):
            row = list(frame.rows[i])
            if kind == "dup_row_other":
                for k in valcols:
                    if row[k] is not None:
                        row[k] = row[k] + 1000.0
            frame.rows.insert((f.get("pos", 0) % (nrows + 1)), row)
            return True
        if kind == "blank_value":
            if not valcols:
                return False
            k = valcols[f.get("col", 0) % len(valcols)]
            if frame.rows[i][k] is None:
                return False
            frame.rows[i][k] = None
            return True
        if not dimcols:
            return False
        k = dimcols[f.get("col", 0) % len(dimcols)]
        d = dl[frame.cols[k]["dim"]]
        if kind == "blank_label":
            frame.rows[i][k] = None
            return True
        if kind == "relabel_unknown":
            dt = None if d.dtype is None else d.dtype.__name__
            tok = UNKNOWN[dt]
            if dt is None and all(isinstance(x, int) for x in d.items):
                tok = 9999
            frame.rows[i][k] = tok
            return True
        if kind == "relabel_known":
            others = [x for x in d.items if x != frame.rows[i][k]]
            if not others:
                return False
            frame.rows[i][k] = others[f.get("item", 0) % len(others)]
            return True
    if kind == "dup_row_respelled":
        # a second row for one label combination in which one label is spelled the other way a typed dimension accepts: "2000" next
        # to 2000 for an int dimension, 7 next to "7" for a str dimension.  After the promised conversion the two rows carry the same labels
        dimcols = [k for k, c in enumerate(frame.cols) if c["role"] == "dim" and c.get("ident") == "name"
                   and (dl[c["dim"]].dtype is int or (dl[c["dim"]].dtype is str and all(str(x).isdigit() for x in dl[c["dim"]].items)))]
        if nrows == 0 or not dimcols:
            return False
        row = list(frame.rows[f["row"] % nrows])
        k = dimcols[f.get("col", 0) % len(dimcols)]
        if row[k] is None or isinstance(row[k], (RespInt, RespStr)) or isinstance(row[k], bool) or row[k] not in dl[frame.cols[k]["dim"]].items:
            return False  # only a label the dimension knows can be spelled the other way (an earlier fault may have put "zzzq" there)
        if dl[frame.cols[k]["dim"]].dtype is int:
            if not isinstance(row[k], int):
                return False
            row[k] = RespInt(row[k])
        else:
            if not isinstance(row[k], str):
                return False
            row[k] = RespStr(row[k])
        for j, c in enumerate(frame.cols):
            if c["role"] in ("value", "wide") and row[j] is not None:
                row[j] = row[j] + 1000.0
        frame.rows.insert(f.get("pos", 0) % (nrows + 1), row)
        return True
    if kind == "append_unknown_row":
        # a surplus row: every label taken from an existing row, one of them replaced by an unknown item; value blank or a number
        dimcols = [k for k, c in enumerate(frame.cols) if c["role"] == "dim" and c.get("ident") == "name"]
        if nrows == 0 or not dimcols:
            return False
        row = list(frame.rows[f["row"] % nrows])
        k = dimcols[f.get("col", 0) % len(dimcols)]
        d = dl[frame.cols[k]["dim"]]
        dt = None if d.dtype is None else d.dtype.__name__
        tok = UNKNOWN[dt]
        if dt is None and all(isinstance(x, int) for x in d.items):
            tok = 9999
        row[k] = tok
        for j, c in enumerate(frame.cols):
            if c["role"] in ("value", "wide"):
                row[j] = None if f.get("item", 0) % 2 == 0 else 123456.5
        frame.rows.insert(f.get("pos", 0) % (nrows + 1), row)
        return True
    if kind == "dup_wide_col":
        # a second column for one item of the dimension spread over the columns, its head written the other way a typed dimension
        # accepts (1900 next to "1900"), holding other numbers: the same label combinations twice
        wc = [k for k, c in enumerate(frame.cols) if c["role"] == "wide"]
        if not wc:
            return False
        k = wc[f.get("col", 0) % len(wc)]
        item = frame.cols[k]["item"]
        witems = {frame.cols[j]["item"] for j in wc}
        wd = sorted([d for d in dims if witems <= set(d.items)], key=lambda d: len(d.items))
        if not wd or wd[0].dtype is None or frame.cols[k]["header"] != item:
            return False
        head = str(item) if wd[0].dtype is int else (int(item) if str(item).isdigit() else None)
        if head is None:
            return False
        pos = f.get("pos", 0) % (len(frame.cols) + 1)
        for r in frame.rows:
            r.insert(pos, None if r[k] is None else r[k] + 1000.0)
        frame.cols.insert(pos, {"role": "wide", "item": item, "header": head})
        return True
    if kind == "drop_dim_col":
        dimcols = [k for k, c in enumerate(frame.cols) if c["role"] == "dim"]
        if not dimcols:
            return False
        k = dimcols[f.get("col", 0) % len(dimcols)]
        del frame.cols[k]
        for r in frame.rows:
            del r[k]
        return True
    if kind == "add_junk_col":
        frame.cols.append({"role": "junk", "header": "unmatched_col"})
        for n, r in enumerate(frame.rows):
            r.append(0.125 + n)
        return True
    if kind == "rename_wide_col":
        wc = [k for k, c in enumerate(frame.cols) if c["role"] == "wide"]
        if not wc:
            return False
        k = wc[f.get("col", 0) % len(wc)]
        frame.cols[k] = {"role": "junk", "header": "renamed_item_col"}
        return True
    return False


RECORD_FAULTS = ["drop_row", "drop_item", "dup_row_same", "dup_row_other", "relabel_unknown", "relabel_known", "blank_value", "blank_label", "append_unknown_row",
                 "dup_row_respelled"]
COLUMN_FAULTS = ["drop_dim_col", "add_junk_col", "rename_wide_col", "dup_wide_col"]


# ============================================================================= expectation from the frame
def _could_be_items(cells, d):
    if not cells:
        return False
    items = set(d.items)
    try:
        if set(cells) == items:
            return True
        if d.dtype is str:
            return {str(c) for c in cells} == items
        if d.dtype is int:
            return all(float(c) == int(float(c)) for c in cells) and {int(float(c)) for c in cells} == items
    except (TypeError, ValueError, OverflowError):
        return False
    return False


def expectation(frame, dims, flags, world):
    """what the property demands for the table as it now is.
    returns dict(mode = 'return' | 'raise' | 'either', expected ndarray (for return / either), why)"""
    allow_missing, allow_extra = flags
    dl = list(dims)
    shape = tuple(len(d.items) for d in dl)
    size = int(np.prod(shape)) if shape else 1
    present = {c["dim"] for c in frame.cols if c["role"] == "dim"}
    wide_items = [c["item"] for c in frame.cols if c["role"] == "wide"]
    junk = [c for c in frame.cols if c["role"] == "junk"]
    valuecols = [c for c in frame.cols if c["role"] == "value"]
    widedim = None
    if wide_items or world["layout"]["wide"] is not None:
        widedim = dl[world["layout"]["wide"]]
    # "when the values cannot be mistaken for items": a column of numbers whose set equals the item set of a dimension that has
    # no column found by name or letter (one identified by its items, a single-item one left out, the one spread over the
    # columns), or that together with its header reads like a headerless column of items, is outside the asserted domain
    named = {c["dim"] for c in frame.cols if c["role"] == "dim" and c.get("ident") == "name"}
    for k, c in enumerate(frame.cols):
        if c["role"] == "dim":
            continue
        cells = [r[k] for r in frame.rows if r[k] is not None]
        for d in dl:
            if (d.name not in named and _could_be_items(cells, d)) or _could_be_items([c["header"]] + cells, d):
                return {"mode": "either", "why": "values_look_like_items", "expected": None}
    # ---- structure
    for d in dl:
        if d.name not in present and d is not widedim and len(d.items) > 1:
            return {"mode": "raise", "why": "missing_dim_column"}
    if junk:
        if widedim is not None and not wide_items and len(junk) == 1 and not valuecols:
            return {"mode": "either", "why": "single_renamed_wide_column", "expected": None}
        return {"mode": "raise", "why": "unmatched_value_columns"}
    either = None
    items_ident = {c["dim"] for c in frame.cols if c["role"] == "dim" and c.get("ident") == "items"}
    # ---- records
    pos = {d.name: k for k, d in enumerate(dl)}
    imap = [{it: i for i, it in enumerate(d.items)} for d in dl]
    K = {}
    U = []
    dupK = False
    for r in frame.rows:
        base = {}
        bad = None
        for c, cell in zip(frame.cols, r):
            if c["role"] != "dim":
                continue
            d = dl[pos[c["dim"]]]
            if cell is None:
                bad = "blank_label"
            elif cell not in imap[pos[c["dim"]]]:
                bad = bad or ("unknown_in_items_column" if c["dim"] in items_ident else "unknown")
            base[c["dim"]] = cell
        for d in dl:
            if d.name not in base and d is not widedim:
                base[d.name] = d.items[0]  # omitted single-item dimension
        cells = []
        for c, cell in zip(frame.cols, r):
            if c["role"] == "value":
                cells.append((None, cell))
            elif c["role"] == "wide":
                cells.append((c["item"], cell))
        for witem, val in cells:
            if bad in ("blank_label", "unknown_in_items_column"):
                either = either or bad
                continue
            if bad == "unknown":
                U.append((tuple(sorted((k_, str(v_)) for k_, v_ in base.items())), str(witem)))
                continue
            lab = dict(base)
            if widedim is not None:
                lab[widedim.name] = witem
            idx = tuple(imap[k][lab[dl[k].name]] for k in range(len(dl)))
            if idx in K:
                dupK = True
            K.setdefault(idx, []).append(val)
    # items-identified columns whose item set is no longer complete are not recognised any more
    for c in frame.cols:
        if c["role"] == "dim" and c.get("ident") == "items":
            k = frame.cols.index(c)
            d = dl[pos[c["dim"]]]
            if set(r[k] for r in frame.rows) != set(d.items):
                either = either or "items_column_incomplete"
    if widedim is not None and set(wide_items) != set(widedim.items):
        either = either or "wide_columns_incomplete"
    if not frame.rows:
        either = either or "empty_table"
    expected = np.zeros(shape)
    for idx, vals in K.items():
        v = vals[0]
        expected[idx] = 0.0 if v is None else v
    if dupK:
        return {"mode": "raise", "why": "duplicate", "expected": None, "K": K}
    if len(set(U)) != len(U) and not either:
        # unknown-item rows that duplicate each other: flodym checks duplicates before dropping extras; the property is silent
        either = "duplicated_unknown_rows"
    if either:
        return {"mode": "either", "why": either, "expected": expected, "K": K}
    if U and not allow_extra:
        return {"mode": "raise", "why": "unknown_item", "K": K}
    missing = size - len(K)
    blank = sum(1 for v in K.values() if v[0] is None)
    if (missing or blank) and not allow_missing:
        return {"mode": "raise", "why": "missing" if missing else "blank_value", "K": K}
    why = "complete" if not (missing or blank or U) else "lenient"
    return {"mode": "return", "why": why, "expected": expected, "K": K}


# ============================================================================= engine
class _St:
    pass


class IoChan(Engine):
    NAME = "iochan"
    LEVEL = {"C11": "exploration", "C12": "fault_enumeration"}

    def tasks(self, prop, tier, seed):
        n = {"quick": 6000, "thorough": 120000}[tier]
        tasks = [{"kind": "trip", "idx": k} for k in range(n)]
        if prop == "C12":
            ne = {"quick": 96, "thorough": 8000}[tier]
            tasks += [{"kind": "enum", "idx": k} for k in range(ne)]
        nl = {"quick": 32, "thorough": 600}[tier]
        tasks += [{"kind": "long", "idx": k} for k in range(nl)]
        return tasks

    def budget(self, prop, tier):
        return 300 if tier == "quick" else 3000

    # ------------------------------------------------------------------ generation
    def gen_fault(self, rng, prop):
        if prop == "C11":
            return {"f": rng.choice(["permute_rows", "permute_cols"]), "seed": rng.randint(0, 10 ** 6)}
        kind = rng.weighted([(k, 3) for k in RECORD_FAULTS] + [(k, 1) for k in COLUMN_FAULTS] +
                            [("permute_rows", 2), ("permute_cols", 2)])
        return {"f": kind, "row": rng.randint(0, 200), "col": rng.randint(0, 5), "pos": rng.randint(0, 200),
                "item": rng.randint(0, 5), "seed": rng.randint(0, 10 ** 6)}

    def generate(self, task, prop, seed, tier):
        rng = Rng(self.NAME, prop, seed, task["kind"], task["idx"])
        world = gen_world(rng, prop, long_dim=(task["kind"] == "long"))
        if task["kind"] == "enum":
            cap = 12 if tier == "quick" else 27
            while int(np.prod([len(d["items"]) for d in world["dims"]])) > cap:
                world = gen_world(rng, prop)
            world["enum_flags"] = task["idx"] % 4
        if prop == "C11" and task["kind"] == "trip" and rng.chance(0.3):
            # harmful faults, judged only by the universal clause "whatever from_df returns comes from the unique row with those labels"
            world["safety_only"] = True
            world["flags"] = [rng.chance(0.5), rng.chance(0.5)]
            ops = [self.gen_fault(rng, "C12") for _ in range(rng.randint(1, 3))]
            ops = [f for f in ops if f["f"] in RECORD_FAULTS or f["f"] == "dup_wide_col" or f["f"].startswith("permute")]
        elif prop == "C11":
            ops = [self.gen_fault(rng, prop) for _ in range(rng.randint(0, 3))]
        elif task["kind"] == "long":
            ops = [self.gen_fault(rng, "C11") for _ in range(rng.randint(0, 1))]
        else:
            nf = rng.weighted([(0, 1), (1, 5), (2, 3), (3, 1)])
            ops = [self.gen_fault(rng, prop) for _ in range(nf)]
            ds = world["dims"]
            nested = [(i, j) for i in range(len(ds)) for j in range(len(ds)) if i != j and set(ds[i]["items"]) < set(ds[j]["items"])]
            if nested and rng.chance(0.6):
                # the categories that tell the larger dimension from the smaller one are missing from the data
                i, j = rng.choice(nested)
                extra = [x for x in ds[j]["items"] if x not in ds[i]["items"]]
                ops = [{"f": "drop_item", "row": 0, "col": 0, "pos": 0, "item": 0, "seed": 0, "target": [ds[j]["name"], x]} for x in extra] + ops[:1]
                if rng.chance(0.7):
                    world["layout"]["header"] = "items"
                    world["layout"]["wide"] = None if rng.chance(0.7) else world["layout"]["wide"]
                if rng.chance(0.7):
                    world["flags"][0] = True
            if world["medium"] in ("csv", "csv_reader") and rng.chance(0.08):
                ops.append({"f": "truncate", "frac": rng.randint(5, 95), "boundary": rng.chance(0.5)})
            if world["medium"] != "df" and rng.chance(0.05):
                ops.append({"f": "read_error", "errno": rng.choice(["ENOENT", "EACCES", "EIO"])})
            if world["consumer"] == "set_values_from_df" and rng.chance(0.08):
                ops.append({"f": "interrupt", "at": rng.randint(1, 150), "flavour": rng.choice(["mem", "kbd"])})
        return {"world": world, "ops": ops}

    def run_task(self, task, prop, seed, tier):
        run = self.generate(task, prop, seed, tier)
        if task["kind"] == "enum":
            res = self._enumerate(run, prop, tier)
        else:
            res = self.execute(run, prop)
        if res.get("violation") and "run" not in res:
            r = dict(run)
            r["task"] = {k: v for k, v in task.items() if k != "keep"}
            res["run"] = r
        if task.get("keep"):
            res["sample"] = {"task": {k: v for k, v in task.items() if k != "keep"}, "run": run}
        return res

    def _enumerate(self, run, prop, tier):
        """every single record / column fault x 4 flag combinations for this world and layout"""
        world = run["world"]
        if world["medium"] == "excel_reader":
            world["medium"] = "csv_reader"  # openpyxl round trips are too slow for the enumeration; sampled in 'trip' tasks
        dims = make_dims(world)
        size = dims.total_size
        nrows = size  # upper bound (wide layouts have fewer rows; row index is taken modulo)
        faults = []
        ncols = len(world["dims"]) + 4
        for row in range(min(nrows, 27)):
            for kind in RECORD_FAULTS:
                for col in range(min(ncols, len(world["dims"]) + 1) if kind in ("relabel_unknown", "relabel_known", "blank_label", "blank_value", "drop_item", "dup_row_respelled") else 1):
                    faults.append({"f": kind, "row": row, "col": col, "pos": row, "item": 0, "seed": 0})
        for kind in COLUMN_FAULTS:
            for col in range(len(world["dims"])):
                faults.append({"f": kind, "row": 0, "col": col, "pos": 0, "item": 0, "seed": 0})
        agg = None
        n = 0
        for flags in [([False, False], [True, False], [False, True], [True, True])[world.get("enum_flags", 0)]]:
            for f in faults:
                w = _copy.deepcopy(world)
                w["flags"] = flags
                rk = {"world": w, "ops": [f]}
                r = self.execute(rk, prop)
                n += 1
                if agg is None:
                    agg = r
                else:
                    for key in ("faults", "clauses", "probes"):
                        for name, c in r.get(key, {}).items():
                            agg[key][name] = agg[key].get(name, 0) + c
                    agg["steps"] += r["steps"]
                if r.get("violation"):
                    r["run"] = rk
                    r["run"]["task"] = None
                    return r
        agg["probes"]["single_faults_enumerated"] = n
        agg["probes"]["worlds_with_all_single_faults_enumerated"] = 1
        agg["sig"] = jhash([agg["sig"], "enum", n])
        agg["nontrivial"] = True
        return agg

    # ------------------------------------------------------------------ execution
    def execute(self, run, prop):
        st = _St()
        st.log = EventLog()
        st.clauses, st.probes, st.faults = {}, {}, {}
        st.sig = []
        tmp = tempfile.mkdtemp(prefix="iochan_")
        violation = None
        try:
            with np.errstate(all="ignore"), warnings.catch_warnings():
                warnings.simplefilter("ignore")
                try:
                    self._trip(st, run, prop, tmp)
                except Violation as v:
                    violation = {"clause": v.clause, "step": 0, "detail": v.detail, "tags": v.tags}
                    st.log.add("violation", clause=v.clause)
        finally:
            shutil.rmtree(tmp, ignore_errors=True)
        return {"violation": violation, "digest": st.log.digest(), "steps": 1 + len(run["ops"]), "faults": st.faults, "probes": st.probes,
                "clauses": st.clauses, "sig": jhash(st.sig), "nontrivial": bool(sum(st.clauses.values()) > 0),
                "states": [jhash([x for x in st.sig if isinstance(x, tuple)])]}

    def _cnt(self, st, c):
        st.clauses[c] = st.clauses.get(c, 0) + 1

    def _probe(self, st, c):
        st.probes[c] = st.probes.get(c, 0) + 1

    def _fault(self, st, c):
        st.faults[c] = st.faults.get(c, 0) + 1

    def _trip(self, st, run, prop, tmp):
        world = run["world"]
        lay = world["layout"]
        dims = make_dims(world)
        dl = list(dims)
        shape = tuple(len(d.items) for d in dl)
        X = FlodymArray(dims=dims, values=make_values(world, shape), name="X")
        X = self._with_history(X, world.get("storage", "C"), st)
        wide = lay["wide"] if (lay["wide"] is not None and lay["wide"] < len(dl)) else None
        st.log.add("world", dims=[(d.letter, len(d.items), None if d.dtype is None else d.dtype.__name__) for d in dl],
                   layout=lay, medium=world["medium"], consumer=world["consumer"], flags=world["flags"])
        tags = dict(ndim=len(dl), wide=wide is not None, header=lay["header"], medium=world["medium"], producer=lay["producer"],
                    untyped_int_wide=bool(wide is not None and dl[wide].dtype is None and isinstance(dl[wide].items[0], int)))
        # ---------------- producer
        sparse = bool(lay["sparse"])
        if lay["producer"] == "to_df":
            kw = {"index": bool(lay["index"]), "sparse": sparse}
            if kw["index"] and world["vseed"] % 2:
                del kw["index"]   # documented default: dimensions go into the index
            if not sparse and (world["vseed"] // 2) % 2:
                del kw["sparse"]  # documented default: every entry is listed
            if wide is not None:
                kw["dim_to_columns"] = dl[wide].name if world["vseed"] % 2 else dl[wide].letter
            nan_line = bool(lay.get("nan_line")) and wide is not None and not sparse and len(dl) >= 2 and prop == "C11" and not lay.get("inf")
            if nan_line:
                v_ = np.array(X.values, dtype=float, copy=True)
                k_ = lay["nan_line"]
                sel = [slice(None)] * len(dl)
                if k_ % 2:
                    sel[wide] = k_ % shape[wide]                      # one whole column of the wide table
                else:
                    for ax in range(len(dl)):
                        if ax != wide:
                            sel[ax] = (k_ // (7 ** ax)) % shape[ax]   # one whole row
                v_[tuple(sel)] = np.nan
                X = FlodymArray(dims=dims, values=v_, name="X")
                self._probe(st, "exported_array_with_a_line_of_nan")
            snap = X.values.copy()
            try:
                df0 = X.to_df(**kw)
            except Exception as e:  # noqa
                self._cnt(st, "to_df-lists-every-entry")
                raise Violation("to_df-lists-every-entry", f"to_df({kw}) raised {exc_class(e)} for an array over {dims.letters} shape {shape}",
                                cls="to_df-raises", **tags)
            if not isinstance(df0, pd.DataFrame):
                self._cnt(st, "to_df-lists-every-entry")
                raise Violation("to_df-lists-every-entry", f"to_df({kw}) returned {type(df0).__name__}, not a table", cls="to_df-wrong", **tags)
            try:
                frame = frame_from_df(df0, dims, wide)
            except (KeyError, ValueError, TypeError, IndexError, AttributeError) as e:
                self._cnt(st, "to_df-lists-every-entry")
                raise Violation("to_df-lists-every-entry", f"to_df({kw}) returned a table that cannot be read as labels and values of the array ({exc_class(e)})",
                                cls="to_df-wrong", **tags)
            if nan_line:
                # only the export is judged: every entry once under its labels, the NaN ones as empty cells (importing NaN is C12's matter)
                self._cnt(st, "to_df-lists-every-entry")
                imap_ = [{it: i for i, it in enumerate(d.items)} for d in dl]
                seen_ = {}
                for r in frame.rows:
                    base_ = {c["dim"]: cell for c, cell in zip(frame.cols, r) if c["role"] == "dim"}
                    for c, cell in zip(frame.cols, r):
                        if c["role"] != "wide":
                            continue
                        lab_ = dict(base_)
                        lab_[dl[wide].name] = c["item"]
                        try:
                            idx_ = tuple(imap_[k][lab_[d.name]] for k, d in enumerate(dl))
                        except (KeyError, ValueError, TypeError):
                            raise Violation("to_df-lists-every-entry", f"to_df lists a row with labels {lab_} that are not labels of the array", cls="to_df-wrong", **tags)
                        if idx_ in seen_:
                            raise Violation("to_df-lists-every-entry", f"to_df lists the entry {lab_} twice", cls="to_df-wrong", **tags)
                        seen_[idx_] = cell
                for idx_ in itertools.product(*[range(n) for n in shape]):
                    v = float(X.values[idx_])
                    if idx_ not in seen_:
                        raise Violation("to_df-lists-every-entry", f"to_df(dim_to_columns=...) does not list entry {idx_} (value {v}) of an array "
                                                                   f"holding a complete line of NaN", cls="to_df-wrong", nan_line=True, **tags)
                    if (seen_[idx_] is None) != (v != v) or (v == v and seen_[idx_] != v):
                        raise Violation("to_df-lists-every-entry", f"to_df lists {seen_[idx_]} for entry {idx_} whose value is {v}", cls="to_df-wrong", nan_line=True, **tags)
                return
            if prop == "C11":
                self._judge_to_df(st, frame, dims, X, wide, sparse, tags)
        else:
            frame = frame_from_array(world, dims, X.values, wide, sparse)
        if lay["omit_single"]:
            for d in dl:
                k = frame.dim_col(d.name)
                if k is not None and len(d.items) == 1:
                    del frame.cols[k]
                    for r in frame.rows:
                        del r[k]
                    self._probe(st, "single_item_dimension_omitted")
        style_headers(frame, world, dims, world["vseed"])
        intact = frame.copy()
        # reach: which of the rarer world features this run has
        its = [d["items"] for d in world["dims"]]
        if any(x == list(range(len(x))) for x in its):
            self._probe(st, "counter_dimension_0_to_n_in_order")
        if any(i != j and set(a) < set(b) for i, a in enumerate(its) for j, b in enumerate(its)):
            self._probe(st, "nested_item_sets")
        if lay.get("mimic"):
            self._probe(st, "values_repeat_labels" + ("_plus_fraction" if lay["mimic"]["frac"] else ""))
        if lay["header"] == "items" and lay.get("blank_headers"):
            self._probe(st, "items_identified_columns_called_unnamed")
        if lay["index"] == "unnamed" and lay["header"] == "items":
            self._probe(st, "index_levels_without_names")
        # ---------------- faults on the stored table
        medium_faults = []
        for f in run["ops"]:
            if f["f"] in ("truncate", "read_error", "interrupt"):
                medium_faults.append(f)
                continue
            if apply_fault(frame, f, dims, st):
                self._fault(st, f["f"])
                st.sig.append(f["f"])
        flags = list(world["flags"])
        if sparse and X.values.size != np.count_nonzero(X.values):
            flags[0] = True  # the documented way to import sparse data
        if world["medium"] != "df":
            # text and spreadsheet media cannot hold an entirely blank row: pandas skips it when reading
            frame.rows = [r for r in frame.rows if any(c is not None for c in r)]
        exp = expectation(frame, dims, flags, world)
        if exp.get("why") == "values_look_like_items":
            self._probe(st, "no_verdict_values_look_like_items")
        # ---------------- medium
        consumer = world["consumer"]
        medium = world["medium"]
        if medium == "excel_reader" and any(f["f"] == "truncate" for f in medium_faults):
            medium_faults = [f for f in medium_faults if f["f"] != "truncate"]
        target = FlodymArray(dims=dims, values=np.full(shape, SENTINEL), name="T")
        tsnap = target.values.copy()
        prior = None
        if medium in ("csv_reader", "excel_reader") and world["vseed"] % 2 and prop == "C12":
            prior = to_dataframe(intact, lay["index"], lay, dims)
        outcome, result, fired = self._import(st, frame, world, dims, medium, consumer, flags, medium_faults, target, tmp, exp, prior)
        if fired.get("truncate"):
            # complete lines are ordinary records.  A cut at a line boundary is simply "the last rows were dropped"
            # and is judged like any other table; after a mid-line cut the torn line is exempt (see _judge_truncated)
            frame.rows = frame.rows[:fired["complete_rows"]]
            exp = expectation(frame, dims, flags, world)
            if fired["truncate"] == "boundary":
                del fired["truncate"]
        st.log.add("outcome", outcome=outcome[0], exc=outcome[1], mode=exp["mode"], why=exp["why"],
                   v=vdig(result.values) if result is not None else None)
        st.sig.append((lay["header"], wide is not None, lay["index"], medium, consumer, tuple(flags), exp["mode"], exp["why"], outcome[0],
                       len(dl), lay["producer"]))
        tags["why"] = exp["why"]
        tags["safety_only"] = bool(world.get("safety_only"))
        tags["flags"] = list(flags)
        # ---------------- oracle
        self._judge(st, prop, exp, outcome, result, fired, X, target, tsnap, consumer, tags, dims)
        # ---------------- recovery: the intact table into the same target
        if prop == "C12" and consumer == "set_values_from_df" and (outcome[0] != "ret" or exp["mode"] != "return" or exp["why"] != "complete"):
            rflags = [bool(sparse and X.values.size != np.count_nonzero(X.values)), False]
            if expectation(intact, dims, rflags, world)["mode"] != "return":
                return  # the intact table itself is outside what the layout promises (e.g. sparse + items-only headers)
            self._cnt(st, "recovery-after-fault")
            try:
                df = to_dataframe(intact, lay["index"])
                target.set_values_from_df(df, allow_missing_values=rflags[0], allow_extra_values=rflags[1])
            except Exception as e:  # noqa
                raise Violation("recovery-after-fault", f"re-importing the intact table into the same target raised {exc_class(e)}",
                                cls="recovery-after-fault", **tags)
            if not np.array_equal(target.values, X.values):
                raise Violation("recovery-after-fault", "re-importing the intact table into the same target did not give the original array",
                                cls="recovery-after-fault", **tags)

    def _with_history(self, X, storage, st):
        """the exported array is the product of a history: its values may be a Fortran-ordered array the caller passed in,
        a transposed einsum view (sum_to in another dimension order) or the copy made by a slice read"""
        vals = X.values
        if storage == "F" and vals.ndim >= 2:
            self._probe(st, "source_fortran_ordered")
            return FlodymArray(dims=X.dims, values=np.asfortranarray(vals), name="X")
        if storage == "einsum_view" and vals.ndim >= 2:
            rev = DimensionSet(dim_list=list(X.dims)[::-1])
            Y = FlodymArray(dims=rev, values=np.ascontiguousarray(np.transpose(vals)), name="Y")
            Z = Y.sum_to(tuple(X.dims.letters))
            if not Z.values.flags["C_CONTIGUOUS"]:
                self._probe(st, "source_noncontiguous_view")
            Z.name = "X"
            return Z
        if storage == "sliced" and vals.ndim >= 1:
            extra = Dimension(name="Scenario", letter="s", items=["s0", "s1"])
            big = FlodymArray(dims=DimensionSet(dim_list=list(X.dims) + [extra]), values=np.stack([vals, vals + 1.0], axis=-1))
            Z = big["s0"]
            Z.name = "X"
            self._probe(st, "source_is_slice_result")
            return Z
        return X

    def _judge_to_df(self, st, frame, dims, X, wide, sparse, tags):
        self._cnt(st, "to_df-lists-every-entry")
        dl = list(dims)
        imap = [{it: i for i, it in enumerate(d.items)} for d in dl]
        seen = {}
        for r in frame.rows:
            base = {}
            for c, cell in zip(frame.cols, r):
                if c["role"] == "dim":
                    base[c["dim"]] = cell
            for c, cell in zip(frame.cols, r):
                if c["role"] in ("value", "wide"):
                    lab = dict(base)
                    if c["role"] == "wide":
                        lab[dl[wide].name] = c["item"]
                    try:
                        idx = tuple(imap[k][lab[d.name]] for k, d in enumerate(dl))
                    except (KeyError, ValueError):
                        raise Violation("to_df-lists-every-entry", f"to_df lists a row with labels {lab} that are not labels of the array",
                                        cls="to_df-wrong", **tags)
                    if cell is None:
                        if wide is not None and sparse:
                            continue
                        raise Violation("to_df-lists-every-entry", f"to_df lists an empty value under {lab}", cls="to_df-wrong", **tags)
                    if idx in seen:
                        raise Violation("to_df-lists-every-entry", f"to_df lists the entry {lab} twice", cls="to_df-wrong", **tags)
                    seen[idx] = cell
        for idx in itertools.product(*[range(len(d.items)) for d in dl]):
            v = float(X.values[idx])
            if idx in seen:
                if seen[idx] != v:
                    raise Violation("to_df-lists-every-entry", f"to_df lists {seen[idx]} for entry {idx} whose value is {v}", cls="to_df-wrong", **tags)
                if sparse and v == 0.0 and wide is None:
                    raise Violation("to_df-lists-every-entry", f"sparse to_df lists the zero entry {idx}", cls="to_df-wrong", **tags)
            elif not (sparse and v == 0.0):
                raise Violation("to_df-lists-every-entry", f"to_df does not list entry {idx} (value {v})", cls="to_df-wrong", **tags)

    @staticmethod
    def _write_table(df, path, medium):
        if medium in ("csv", "csv_reader"):
            df.to_csv(path, index=isinstance(df.index, pd.MultiIndex) or df.index.name is not None or df.index.dtype == object or bool(df.attrs.get("dims_in_index")))
        else:
            # "contiguous data starting in A1": no merged index cells
            dfx = df.reset_index() if (isinstance(df.index, pd.MultiIndex) or df.index.name is not None or df.index.dtype == object or df.attrs.get("dims_in_index")) else df
            dfx.to_excel(path, sheet_name="data", index=False)

    def _import(self, st, frame, world, dims, medium, consumer, flags, medium_faults, target, tmp, exp, prior=None):
        """returns ((outcome, exc class), result array or None, dict of medium faults that fired)"""
        lay = world["layout"]
        fired = {}
        name = "prm"
        path = None
        df = to_dataframe(frame, lay["index"], lay, dims)
        headerless = False
        if lay.get("headerless") and not world.get("safety_only") and medium in ("df", "csv") and exp.get("mode") == "return" and exp.get("why") == "complete" \
                and len(frame.rows) >= 2 and frame.cols and frame.cols[0]["role"] == "dim" and not medium_faults \
                and all(c["role"] in ("dim", "value") for c in frame.cols) and all(c.get("ident") == "items" for c in frame.cols if c["role"] == "dim") \
                and not isinstance(df.index, pd.MultiIndex) and df.index.name is None and not df.attrs.get("dims_in_index"):
            first = [str(x) for x in frame.rows[0]]
            typed = all(d.dtype is not None for d in dims)
            if None not in frame.rows[0] and len(set(first)) == len(first) and (medium == "df" or typed):
                headerless = True
                self._probe(st, "table_without_header_line_first_record_read_as_header")
                if medium == "df":
                    heads = [df[c].iloc[0] for c in df.columns]  # cell by cell: a row taken as a whole would be upcast to one type
                    heads = [h.item() if isinstance(h, np.generic) else h for h in heads]
                    df = df.iloc[1:].reset_index(drop=True)
                    df.columns = pd.Index(heads, dtype=object)  # as read: each head keeps its own type
        read_err = next((f for f in medium_faults if f["f"] == "read_error"), None)
        trunc = next((f for f in medium_faults if f["f"] == "truncate"), None)
        intr = next((f for f in medium_faults if f["f"] == "interrupt"), None)
        if medium in ("csv", "csv_reader"):
            path = os.path.join(tmp, "table.csv")
            if headerless:
                df.to_csv(path, index=False, header=False)
            else:
                self._write_table(df, path, medium)
            if trunc:
                with open(path, "rb") as fh:
                    blob = fh.read()
                cut = max(1, min(len(blob) - 1, len(blob) * trunc["frac"] // 100))
                cut = min(len(blob) - 1, max(cut, blob.find(b"\n") + 2))  # the header line stays intact
                if trunc["boundary"]:
                    nl = blob.rfind(b"\n", 0, cut)
                    first = blob.find(b"\n")
                    if nl > first:
                        cut = nl + 1
                        fired["truncate"] = "boundary"
                    else:
                        cut = None
                if cut is not None:
                    if "truncate" not in fired:
                        fired["truncate"] = "boundary" if blob[cut - 1:cut] == b"\n" else "midline"
                    with open(path, "wb") as fh:
                        fh.write(blob[:cut])
                    self._fault(st, "csv_truncated_" + fired["truncate"])
                    n_complete = blob[:cut].count(b"\n") - 1  # minus header line
                    fired["complete_rows"] = max(0, n_complete)
        elif medium == "excel_reader":
            path = os.path.join(tmp, "table.xlsx")
            self._write_table(df, path, medium)
        import pandas.io.common as pic
        real_open = open

        def failing_open(file, *a, **k):
            if isinstance(file, (str, bytes, os.PathLike)) and os.fspath(file) == path:
                import errno as _e
                code = getattr(_e, read_err["errno"])
                raise OSError(code, os.strerror(code), path)
            return real_open(file, *a, **k)

        def earlier_read(rd):
            """the reader object has read this path before, when the file still held the intact table (a scenario loop that
            regenerates its input files): what it returns now must come from the file as it is now"""
            if prior is None:
                return
            with open(path, "rb") as fh:
                now = fh.read()
            try:
                self._write_table(prior, path, medium)
                rd.read_parameter_values(name, dims)
            except Exception:  # noqa - only what the reader may have kept matters
                pass
            finally:
                with open(path, "wb") as fh:
                    fh.write(now)
            self._probe(st, "reader_object_read_the_path_before")

        # "with default settings": a switch that is off is left out of the call in half of the runs
        fkw = {}
        if flags[0] or world["vseed"] % 2:
            fkw["allow_missing_values"] = flags[0]
        if flags[1] or (world["vseed"] // 2) % 2:
            fkw["allow_extra_values"] = flags[1]
        if len(fkw) < 2:
            self._probe(st, "import_called_with_default_switches_left_out")

        def thunk():
            if medium == "df":
                d_in = df
            elif medium == "csv":
                d_in = pd.read_csv(path)
            elif medium == "csv_reader":
                rd = CSVParameterReader(parameter_files={name: path}, **fkw)
                # another reader object with the opposite settings exists in the same program; it must not matter
                CSVParameterReader(parameter_files={"other": path}, allow_missing_values=not flags[0], allow_extra_values=not flags[1])
                earlier_read(rd)
                return rd.read_parameter_values(name, dims)
            else:
                rd = ExcelParameterReader(parameter_files={name: path}, parameter_sheets={name: "data"}, **fkw)
                ExcelParameterReader(parameter_files={"other": path}, allow_missing_values=not flags[0], allow_extra_values=not flags[1])
                earlier_read(rd)
                return rd.read_parameter_values(name, dims)
            if consumer == "from_df":
                return FlodymArray.from_df(dims=dims, df=d_in, **fkw)
            target.set_values_from_df(d_in, **fkw)
            return target

        crash = None
        try:
            if read_err and path and medium != "excel_reader":
                pic.open = failing_open
                fired["read_error"] = read_err["errno"]
                self._fault(st, "read_error_" + read_err["errno"])
            if intr and consumer == "set_values_from_df" and medium in ("df",):
                crash = Crash(at=intr["at"], flavour=intr.get("flavour", "mem"))
                with crash:
                    res = thunk()
            else:
                res = thunk()
            out = ("ret", None)
        except INTERRUPTS:
            out = ("interrupt", None)
            res = None
            fired["interrupt"] = crash.fired
            self._fault(st, "interrupt_" + intr.get("flavour", "mem"))
        except Exception as e:  # noqa
            out = ("raise", exc_class(e))
            res = None
        finally:
            if "open" in pic.__dict__:
                del pic.open
        return out, res, fired

    def _judge(self, st, prop, exp, outcome, result, fired, X, target, tsnap, consumer, tags, dims):
        mode = exp["mode"]
        kind = outcome[0]
        if tags.get("safety_only"):
            if kind == "ret" and exp.get("K") is not None:
                self._cnt(st, "never-wrong-data")
                self._safety(st, result.values, exp, tags, exempt=set())
            return
        # ---- injected I/O error must surface
        if "read_error" in fired:
            self._cnt(st, "io-error-surfaces")
            if kind == "ret":
                raise Violation("io-error-surfaces", f"an injected {fired['read_error']} on open was swallowed: the import returned",
                                cls="io-error-surfaces", **tags)
            self._no_partial(st, kind, consumer, target, tsnap, tags)
            return
        if "interrupt" in fired:
            # bitwise either old or completely new
            self._cnt(st, "interrupt-old-or-new")
            new_ok = mode in ("return",) and np.array_equal(target.values, exp["expected"])
            old_ok = np.array_equal(target.values, tsnap)
            if not (new_ok or old_ok) or target.values.shape != tsnap.shape:
                raise Violation("interrupt-old-or-new", f"after an interrupt at {fired['interrupt']} the target is neither its old content nor the "
                                                        f"complete new content", cls="interrupt-old-or-new", **tags)
            return
        if "truncate" in fired:
            self._judge_truncated(st, exp, outcome, result, fired, X, target, tsnap, consumer, tags)
            return
        if mode == "raise":
            self._cnt(st, "refuses-" + exp["why"])
            if kind == "ret":
                raise Violation("refuses-bad-data", f"data with a fault of class '{exp['why']}' was imported without an error "
                                                    f"(flags allow_missing={tags['flags'][0]}, allow_extra={tags['flags'][1]})",
                                cls="refuses:" + exp["why"], **tags)
            self._no_partial(st, kind, consumer, target, tsnap, tags)
            return
        if mode == "return":
            clause = "roundtrip-identical" if exp["why"] == "complete" else "lenient-import-by-label"
            self._cnt(st, clause)
            if kind != "ret":
                raise Violation(clause, f"import of a {'complete' if exp['why'] == 'complete' else 'flag-permitted'} table raised {outcome[1]} "
                                        f"(layout {tags['header']}/{'wide' if tags['wide'] else 'long'}/{tags['medium']}, flags {tags['flags']})",
                                cls=clause + ":raised", **tags)
            got = result.values
            if got.shape != exp["expected"].shape or not np.array_equal(got, exp["expected"]):
                bad = np.argwhere(got != exp["expected"]) if got.shape == exp["expected"].shape else []
                raise Violation(clause, f"imported array differs from the table at {len(bad)} entries, first {bad[0].tolist() if len(bad) else None} "
                                        f"(layout {tags['header']}/{'wide' if tags['wide'] else 'long'}/{tags['medium']})",
                                cls=clause + ":wrong", **tags)
            return
        # either: raise or lenient result, never wrong data
        self._cnt(st, "never-wrong-data")
        if kind == "ret" and exp.get("expected") is not None:
            self._safety(st, result.values, exp, tags, exempt=set())
        elif kind != "ret":
            self._no_partial(st, kind, consumer, target, tsnap, tags)

    def _safety(self, st, got, exp, tags, exempt):
        K = exp["K"]
        for idx in itertools.product(*[range(n) for n in got.shape]):
            if idx in exempt:
                continue
            vals = K.get(idx)
            if vals is None:
                if got[idx] != 0.0:
                    raise Violation("never-wrong-data", f"entry {idx} is {got[idx]} although no row carries its labels", cls="never-wrong-data", **tags)
            elif len(vals) == 1:
                want = 0.0 if vals[0] is None else vals[0]
                if got[idx] != want:
                    raise Violation("never-wrong-data", f"entry {idx} is {got[idx]}, the unique row with its labels says {want}", cls="never-wrong-data", **tags)
            else:
                raise Violation("never-wrong-data", f"import returned although entry {idx} has {len(vals)} rows", cls="never-wrong-data", **tags)

    def _no_partial(self, st, kind, consumer, target, tsnap, tags):
        if consumer != "set_values_from_df" or kind != "raise":
            return
        self._cnt(st, "no-partial-fill")
        if target.values.shape != tsnap.shape or not np.array_equal(target.values, tsnap):
            raise Violation("no-partial-fill", "a refused import left the target array changed", cls="no-partial-fill", **tags)

    def _judge_truncated(self, st, exp, outcome, result, fired, X, target, tsnap, consumer, tags):
        """complete lines are ordinary records; the torn line is exempt; nothing else may be wrong"""
        self._cnt(st, "truncated-file-never-wrong-data")
        if outcome[0] != "ret":
            self._no_partial(st, outcome[0], consumer, target, tsnap, tags)
            return
        structural = exp.get("why") in ("unmatched_value_columns", "missing_dim_column")
        if structural and fired["truncate"] != "boundary":
            # the cells of a torn line can read like the items of a dimension that has no named column ("0.1" cut to "0"): the column
            # structure seen by the importer is then another one, and the property's exclusion (values mistaken for items) applies
            return
        if exp["mode"] == "raise" and exp["why"] in ("duplicate", "unknown_item", "unmatched_value_columns", "missing_dim_column"):
            # the torn line cannot cure a fault that the complete lines already carry
            raise Violation("refuses-bad-data", f"a truncated file whose complete lines carry a fault of class '{exp['why']}' was imported "
                                                f"without an error", cls="refuses:" + exp["why"], **tags)
        # returned: every entry must be either 0 or the value its unique complete line says
        # (a torn value like 5012.75 -> 5 is exempt: at most the entries of one row may deviate)
        if exp.get("K") is None:
            return  # the table's structure is already outside what the layout promises (e.g. a renamed item column): nothing to compare with
        K = exp["K"]
        got = result.values
        deviating_rows = 0
        wrong = []
        for idx in itertools.product(*[range(n) for n in got.shape]):
            vals = K.get(idx)
            ok = got[idx] == 0.0 or (vals is not None and len(vals) == 1 and vals[0] is not None and got[idx] == vals[0])
            if not ok:
                wrong.append(idx)
        limit = 1 if not tags["wide"] else max(got.shape) if got.shape else 1
        if fired["truncate"] == "boundary":
            limit = 0
        if len(wrong) > limit:
            raise Violation("truncated-file-never-wrong-data", f"import of a truncated file returned {len(wrong)} entries that no complete line carries "
                                                               f"(first {wrong[0]})", cls="truncated-file-never-wrong-data", **tags)

    # ------------------------------------------------------------------ minimisation
    def shrink(self, run):
        w = run["world"]
        if w["medium"] != "df" and not any(f["f"] in ("truncate", "read_error") for f in run["ops"]):
            w2 = _copy.deepcopy(w)
            w2["medium"] = "df"
            yield {"world": w2, "ops": run["ops"]}
        if w["layout"]["omit_single"]:
            w2 = _copy.deepcopy(w)
            w2["layout"]["omit_single"] = False
            yield {"world": w2, "ops": run["ops"]}
        if w["layout"]["producer"] == "to_df":
            w2 = _copy.deepcopy(w)
            w2["layout"]["producer"] = "own"
            yield {"world": w2, "ops": run["ops"]}
        if w["layout"]["index"]:
            w2 = _copy.deepcopy(w)
            w2["layout"]["index"] = False
            yield {"world": w2, "ops": run["ops"]}
        if w["zeros"]:
            w2 = _copy.deepcopy(w)
            w2["zeros"] = []
            w2["layout"]["sparse"] = False
            yield {"world": w2, "ops": run["ops"]}
        for k, d in enumerate(w["dims"]):
            if len(d["items"]) > 1 and d["letter"] != "z":
                w2 = _copy.deepcopy(w)
                w2["dims"][k]["items"] = d["items"][:-1]
                w2["zeros"] = []
                w2["layout"]["sparse"] = False
                yield {"world": w2, "ops": run["ops"]}
        if len(w["dims"]) > 1:
            for k in range(len(w["dims"])):
                if w["layout"]["wide"] is not None and w["layout"]["wide"] >= len(w["dims"]) - 1:
                    continue
                w2 = _copy.deepcopy(w)
                del w2["dims"][k]
                w2["zeros"] = []
                w2["layout"]["sparse"] = False
                if w2["layout"]["wide"] is not None and k <= w2["layout"]["wide"]:
                    continue
                yield {"world": w2, "ops": run["ops"]}

    def class_key(self, tags):
        return (tags.get("cls"), tags.get("wide"), tags.get("header") == "items", tags.get("untyped_int_wide"), tags.get("ndim") == 1)

    # ------------------------------------------------------------------ evidence
    def rule(self, prop):
        base = ("one run = one table travelling producer (real to_df or the harness's own serialiser) -> header style (names / letters / mixed / "
                "items-only) -> layout (long, or wide over any dimension; dimensions in the index or in columns; single-item dimensions optionally "
                "omitted; arbitrary value-column name) -> medium (DataFrame | CSV text + pd.read_csv | CSVParameterReader | ExcelParameterReader) -> "
                "consumer (from_df | set_values_from_df into a sentinel-filled target) over a random world of 1-4 dimensions (int / str / untyped / "
                "untyped-int items, lengths 1-4, pairwise different item sets; 'long' tasks use one dimension of 33000-40000 items); the expected "
                "outcome is derived from the harness's own frame model after faults. ")
        if prop == "C11":
            return base + ("Only benign perturbations (row / column permutations). distinct = distinct (header, wide?, index?, medium, consumer, flags, "
                           "expectation class, outcome, ndim, producer, perturbations); non-trivial = at least one oracle clause evaluated")
        return base + ("Faults: record level (drop / duplicate same / duplicate other value / relabel->unknown / relabel->other known / blank value / "
                       "blank label), column level (drop a dimension column, add an unmatched value column, rename a wide item column), CSV truncation at "
                       "a line boundary or mid-line, OSError on open, interrupts inside set_values_from_df; all four flag combinations. 'enum' tasks "
                       "enumerate every single record/column fault for a sampled world and layout (<= 12 records in the quick tier, <= 27 in the thorough tier) under one of the 4 flag combinations (task index mod 4). distinct/non-trivial as for C11")

    def components(self, prop):
        return {"real": ["flodym._df_to_flodym_array", "flodym.flodym_arrays (to_df / from_df / set_values_from_df)", "flodym.data_reader (CSV / Excel parameter readers)",
                         "pandas (read_csv, to_csv, read_excel, to_excel)", "openpyxl", "the file system under a scratch directory"],
                "stubbed": ["producer of damaged tables (frame model + fault operators)", "open() seen by pandas.io.common for injected OSErrors",
                            "interrupts: sys.settrace injector"],
                "not_run": ["plotting", "dimension readers (see C18)"]}

    def assumptions(self, prop):
        return ["values are pairwise distinct, non-zero (except deliberate zeros), not integer-valued and >= 5000, items are < 3000: a value can never be "
                "mistaken for an item and every imported entry is attributable to one record",
                "unknown-item tokens are type-compatible with the dimension (9999 for int items, a string otherwise)",
                "items-only identification is asserted for complete item sets only; otherwise 'raise or lenient result, never wrong data' is demanded",
                "a wide layout over an untyped dimension with int items is not sent through text media (nothing in the file says the headers are ints)",
                "after a mid-line truncation the torn line's entries are exempt; after an interrupt the target must be bitwise old or completely new"]


ENGINE = IoChan()
