#!/bin/bash
# runs every registered quick (or $1=thorough) check against /repo and reports exit codes; evidence files are rewritten
cd /verif
tier=${1:-quick}
for p in $(/venv/bin/python -c "import json; print(' '.join(c['property_id'] for c in json.load(open('MANIFEST.json'))['checks']))"); do
  s=$(date +%s)
  out=$(./check $p --tier $tier 2>&1); code=$?
  echo "$p exit=$code $(( $(date +%s) - s ))s :: $(echo "$out" | tail -1)"
  echo "$out" | grep -E "^(VIOLATION|HARNESS-ERROR|KNOWN-FINDING)" | head -5
done
python3-vt tools/validate_evidence.py
