#!/bin/bash
# tools/final_thorough.sh SEED  - every thorough check once, the most recently changed engines first
export VERIF_OUT_DIR=$PWD/out
mkdir -p /tmp/soak_replays
for p in C12 C11 C17 C18 C02 C19 C05 C13 C15 C14; do
  VERIF_SEED=$1 ./check $p --tier thorough 2>&1 | grep -E "VIOLATION|HARNESS|clause=|exit=" | sed "s/^/thorough seed=$1 /"
  cp -n out/replays/*.json /tmp/soak_replays/ 2>/dev/null
done
echo THOROUGH-DONE
