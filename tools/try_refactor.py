#!/venv/bin/python
"""tools/try_refactor.py <dir with patch.diff> [PROP ...]
Applies a behaviour-preserving refactoring to a scratch worktree of /repo and runs the quick checks (all ten by default)
against it.  Every non-zero exit is a candidate false alarm (or the refactoring is not behaviour preserving after all)."""
import json, os, shutil, subprocess, sys, tempfile
VERIF = os.path.dirname(os.path.dirname(os.path.abspath(__file__)))
ALL = ["C02", "C05", "C11", "C12", "C13", "C14", "C15", "C17", "C18", "C19"]


def sh(cmd):
    return subprocess.run(cmd, shell=True, capture_output=True, text=True)


def main():
    mdir = os.path.abspath(sys.argv[1])
    props = sys.argv[2:] or ALL
    name = os.path.basename(mdir.rstrip("/"))
    wt = tempfile.mkdtemp(prefix=f"refac_{name}_", dir="/tmp"); os.rmdir(wt)
    out = tempfile.mkdtemp(prefix=f"refacout_{name}_", dir="/tmp")
    try:
        assert sh(f"git -C /repo worktree add --detach {wt} HEAD -q").returncode == 0
        r = sh(f"git -C {wt} apply {mdir}/patch.diff")
        if r.returncode:
            print(f"{name}: patch does not apply: {r.stderr[-200:]}"); return 2
        t = sh(f"cd {wt} && /venv/bin/python -m pytest -q -p no:cacheprovider -x tests 2>&1 | tail -1").stdout.strip()
        line = [f"{name}: tests[{t}]"]
        for p in props:
            env = dict(os.environ, FLODYM_REPO=wt, VERIF_OUT_DIR=out); env.pop("PYTHONHASHSEED", None)
            r = subprocess.run([os.path.join(VERIF, "check"), p], capture_output=True, text=True, env=env, cwd=VERIF)
            cl = sorted({l.strip().split(" detail=")[0] + " :: " + l.strip().split(" detail=")[1][:110] for l in r.stdout.splitlines() if l.strip().startswith("clause=")})
            line.append(f"{p}={r.returncode}" + ("" if r.returncode == 0 else " " + " | ".join(cl[:2])))
        print(" ".join(line), flush=True)
    finally:
        sh(f"git -C /repo worktree remove --force {wt}")
        if "--keep" in sys.argv:
            print("kept", out)
        else:
            shutil.rmtree(out, ignore_errors=True)
    return 0


if __name__ == "__main__":
    sys.exit(main())
