#!/venv/bin/python
"""(Re)generates /verif/mutants/hand_*.patch from the search/replace table below, in a scratch worktree of /repo."""
import json, os, subprocess, sys, tempfile
VERIF = os.path.dirname(os.path.dirname(os.path.abspath(__file__)))
M = [
 # (name, property, file, old, new, what)
 ("C02_no_sysenv_mirror", "C02", "flodym/mfa_system.py", 'contributions["sysenv"].append(stock_change)', 'pass', "drop the sysenv mirror booking of stock changes"),
 ("C02_sign_flip_target", "C02", "flodym/mfa_system.py", 'contributions[flow.to_process.name].append(flow)', 'contributions[flow.to_process.name].append(-flow)', "flip the sign at the target process"),
 ("C02_skip_stocks", "C02", "flodym/mfa_system.py", 'if stock.process is None:  # not connected to a process', 'if True:', "skip all stocks in the mass balance"),
 ("C02_tol_times_1e6", "C02", "flodym/mfa_system.py", 'tolerance = 100 * self._absolute_float_precision\n\n        # returns', 'tolerance = 1e8 * self._absolute_float_precision\n\n        # returns', "default tolerance factor x 10^6"),
 ("C02_only_first_failed", "C02", "flodym/mfa_system.py", 'if failed:\n            info', 'if failed and "sysenv" in failed:\n            info', "report only if sysenv itself is unbalanced"),
 ("C02_checkflows_abs", "C02", "flodym/mfa_system.py", 'if np.any(flow.values < -tolerance):', 'if np.any(flow.values < -tolerance - 1.0):', "negative entries below -tol-1 only"),
 ("C02_checkflows_exception_ignored", "C02", "flodym/mfa_system.py", 'if f.from_process.name not in exceptions and f.to_process.name not in exceptions', 'if f.from_process.name not in exceptions', "exceptions by target process name ignored"),
 ("C02_outflow_ignored", "C02", "flodym/mfa_system.py", 'stock_change = stock.inflow - stock.outflow', 'stock_change = stock.inflow - 0 * stock.outflow', "stock outflow ignored in the balance"),
 ("C05_positional_sum", "C05", "flodym/flodym_arrays.py", 'self.values[slice_obj.ids] = item.sum_values_to(slice_obj.dim_letters)', 'self.values[slice_obj.ids] = item.sum_values_to(tuple(l for l in item.dims.letters if l in slice_obj.dim_letters))', "source summed but not reordered to the region's dimension order"),
 ("C05_no_copy_nd", "C05", "flodym/flodym_arrays.py", 'self.set_values(copy(item))', 'self.set_values(item)', "whole-array ndarray assignment stores the caller's array"),
 ("C05_mesh_reversed", "C05", "flodym/flodym_arrays.py", 'mesh_of_ids = np.ix_(*id_lists)', 'mesh_of_ids = np.ix_(*id_lists[::-1])[::-1]', "meshgrid axes reversed"),
 ("C05_broadcast_setvalues", "C05", "flodym/flodym_arrays.py", 'self.values = self._validated_values(values)', 'self.values = self._validated_values(np.broadcast_to(values, self.dims.shape).copy() if isinstance(values, np.ndarray) and values.ndim == len(self.dims.shape) else values)', "set_values broadcasts same-rank arrays"),
 ("C11_no_sort_columns", "C11", "flodym/_df_to_flodym_array.py", 'self.df = self.df[list(self.flodym_array.dims.names) + [self.format.value_column]]', 'self.df = self.df[[c for c in self.df.columns if c != self.format.value_column] + [self.format.value_column]]', "columns not sorted into the array's dimension order"),
 ("C11_sparse_drops_negative", "C11", "flodym/flodym_arrays.py", 'non_zero_ids = np.nonzero(self.values)', 'non_zero_ids = np.nonzero(self.values > 5003)', "sparse export drops small entries"),
 ("C12_no_duplicate_check", "C12", "flodym/_df_to_flodym_array.py", 'if indices.duplicated().any():', 'if False:', "duplicate check removed"),
 ("C12_fillna_always", "C12", "flodym/_df_to_flodym_array.py", 'if self.allow_missing_values:\n            self.df[self.format.value_column]', 'if True:\n            self.df[self.format.value_column]', "missing values always filled with zero"),
 ("C12_no_extra_check", "C12", "flodym/_df_to_flodym_array.py", 'if self.allow_extra_values:\n            for dim', 'if True:\n            for dim', "extra rows always dropped silently"),
 ("C12_nan_check_dropped", "C12", "flodym/_df_to_flodym_array.py", 'if any(self.df[self.format.value_column].isna()):', 'if False:', "NaN value cells accepted with default flags"),
 ("C13_no_check_in_set_values", "C13", "flodym/flodym_arrays.py", 'self.values = self._validated_values(values)', 'self.values = values', "set_values stores without validating"),
 ("C13_size_not_shape", "C13", "flodym/flodym_arrays.py", 'if values.shape != self.dims.shape:', 'if values.size != int(np.prod(self.dims.shape)):', "compare size instead of shape"),
 ("C13_no_time_first_check", "C13", "flodym/stocks.py", 'if self.dims.letters[0] != self.time_letter:', 'if False:', "stock accepts time not first"),
 ("C13_inflow_dims_unchecked", "C13", "flodym/stocks.py", 'elif not self._same_dims(self.inflow.dims):', 'elif False:', "inflow array dims unchecked"),
 ("C14_union_prepends", "C14", "flodym/dimensions.py", 'return DimensionSet(dim_list=self.dim_list + added_dims)', 'return DimensionSet(dim_list=added_dims + self.dim_list)', "union prepends"),
 ("C14_intersect_right_order", "C14", "flodym/dimensions.py", 'intersection_letters = [dim.letter for dim in self.dim_list if dim.letter in other.letters]', 'intersection_letters = [dim.letter for dim in other.dim_list if dim.letter in self.letters]', "intersection in the right set's order"),
 ("C14_copy_shallow", "C14", "flodym/dimensions.py", 'return self.model_copy(update={"dim_list": copy(self.dim_list)})', 'return self.model_copy()', "copy() shares dim_list"),
 ("C14_drop_edits_receiver", "C14", "flodym/dimensions.py", 'dimensions = copy(self.dim_list)\n            dimensions.remove(dim_to_drop)', 'dimensions = self.dim_list\n            dimensions.remove(dim_to_drop)', "non-inplace drop edits the receiver"),
 ("C14_replace_no_clash_check", "C14", "flodym/dimensions.py", 'if new_dim.letter in self.letters:\n            raise ValueError(\n                "New dimension can\'t have same letter as any of those already in DimensionSet, "\n                "as that would create ambiguity"\n            )', 'pass', "replace accepts a clashing letter"),
 ("C14_index_by_name_off", "C14", "flodym/dimensions.py", 'return self.dim_list.index(dim)', 'return self.dim_list[::-1].index(dim) if len(self.dim_list) == 3 else self.dim_list.index(dim)', "index wrong for sets of three"),
 ("C15_no_copy_dims_validator", "C15", "flodym/flodym_arrays.py", 'self.dims = self.dims.copy()\n        return self', 'return self', "constructor keeps the caller's DimensionSet"),
 ("C15_copy_shares_values", "C15", "flodym/flodym_arrays.py", 'return self.model_copy(update={"dims": self.dims.copy(), "values": self.values.copy()})', 'return self.model_copy(update={"dims": self.dims.copy()})', "copy() shares values"),
 ("C15_neg_inplace", "C15", "flodym/flodym_arrays.py", 'return FlodymArray(dims=self.dims, values=-self.values)', 'np.negative(self.values, out=self.values)\n        return FlodymArray(dims=self.dims, values=self.values.copy())', "__neg__ negates the operand in place"),
 ("C15_converter_no_df_copy", "C15", "flodym/_df_to_flodym_array.py", 'self.df = df.copy()', 'self.df = df', "import works on the caller's DataFrame"),
 ("C17_reset_only_sf", "C17", "flodym/lifetime_models.py", '        self._sf = None\n        self._pdf = None\n\n    def _tile', '        self._sf = None\n\n    def _tile', "set_prms invalidates only the survival table"),
 ("C17_weibull_no_reset", "C17", "flodym/lifetime_models.py", 'def set_prms(self, weibull_shape: FlodymArray, weibull_scale: FlodymArray):\n        self._reset_tables()', 'def set_prms(self, weibull_shape: FlodymArray, weibull_scale: FlodymArray):', "Weibull set_prms does not invalidate"),
 ("C17_reset_after_first_param", "C17", "flodym/lifetime_models.py", 'def set_prms(self, mean: FlodymArray, std: FlodymArray):\n        self._reset_tables()\n        self.mean = self.cast_any_to_np_array(mean)\n        self.std = self.cast_any_to_np_array(std)', 'def set_prms(self, mean: FlodymArray, std: FlodymArray):\n        self.mean = self.cast_any_to_np_array(mean)\n        self._reset_tables()\n        self.std = self.cast_any_to_np_array(std)', "invalidate after storing the first of two parameters (harmless unless interrupted)"),
 ("C17_cohort_accumulates", "C17", "flodym/stocks.py", 'self._outflow_by_cohort = np.einsum(\n            "c...,tc...->tc...", self.inflow.values, self.lifetime_model.pdf\n        )', 'self._outflow_by_cohort = self._outflow_by_cohort * 0 + np.einsum(\n            "c...,tc...->tc...", self.inflow.values, self.lifetime_model.pdf\n        ) + (self._outflow_by_cohort > 1e300)', "cohort table accumulates on the previous one: history dependent when the previous result held NaN / inf (the check flags it, rightly)"),
 ("C17_global_bounds_cache", "C17", "flodym/lifetime_models.py", '    def compute_t_bounds(self):\n        middle =', '    def compute_t_bounds(self):\n        key = len(self.dim.items)\n        if key in _BOUNDS_CACHE:\n            self._bounds = _BOUNDS_CACHE[key]\n            return\n        self._compute_t_bounds()\n        _BOUNDS_CACHE[key] = self._bounds\n\n    def _compute_t_bounds(self):\n        middle =', "module-level cache of interval bounds keyed by the number of time items only (state leaks between objects and runs)"),
 ("C17_class_level_sf_cache", "C17", "flodym/lifetime_models.py", "        self._sf = sf\n\n    def get_quad_points_and_weights", "        key = (type(self).__name__, self._shape_cohort, tuple(float(np.sum(p)) for p in self.prms.values()))\n        self._sf = _SF_CACHE.setdefault(key, sf).copy()\n\n    def get_quad_points_and_weights", "module-level survival-table cache keyed by class, shape and the SUM of the parameters (ignores grid, inflow_at, per-label distribution): the first table computed under a key wins"),
 # ---- negative controls: property-preserving refactors, must NOT be flagged
 ("NC_C17_temp_copy", "C17", "flodym/stocks.py", 'self.outflow.values[...] = self._outflow_by_cohort.sum(axis=1)', 'tmp = self._outflow_by_cohort.sum(axis=1)\n        self.outflow.values[...] = tmp.copy()', "negative control: harmless temp copy"),
 ("NC_C14_copy_via_ctor", "C14", "flodym/dimensions.py", 'return self.model_copy(update={"dim_list": copy(self.dim_list)})', 'return DimensionSet(dim_list=list(self.dim_list))', "negative control: copy() through the constructor"),
 ("NC_C15_slice_dotcopy", "C15", "flodym/flodym_arrays.py", 'dims=self.dims_out, values=np.array(self.values_pointer), name=self.flodym_array.name', 'dims=self.dims_out, values=self.values_pointer.copy(), name=self.flodym_array.name', "negative control: .copy() instead of np.array"),
 ("NC_C13_other_exception", "C13", "flodym/flodym_arrays.py", 'raise ValueError("Values must be a numpy array, except for 0-dimensional arrays.")', 'raise TypeError("values: ndarray needed unless the array has no dimensions")', "negative control: other exception class and message"),
 ("NC_C05_setitem_local", "C05", "flodym/flodym_arrays.py", 'self.values[slice_obj.ids] = item.sum_values_to(slice_obj.dim_letters)', 'summed = item.sum_values_to(slice_obj.dim_letters)\n            self.values[slice_obj.ids] = np.array(summed)', "negative control: copy of the summed source before assignment"),
 ("NC_C12_other_exception", "C12", "flodym/_df_to_flodym_array.py", 'raise ValueError("Empty cells/NaN values in value column!")', 'raise RuntimeError("value column has empty cells")', "negative control: other exception class"),
 ("NC_C11_flatten_ravel_c", "C11", "flodym/flodym_arrays.py", 'df = pd.DataFrame({"value": self.values.flatten()})\n            df = df.set_index(multiindex)\n        if dim_to_columns', 'df = pd.DataFrame({"value": np.ascontiguousarray(self.values).ravel()})\n            df = df.set_index(multiindex)\n        if dim_to_columns', "negative control: C-order ravel of a contiguous copy"),
 ("NC_C02_message_and_eps", "C02", "flodym/mfa_system.py", 'message = "Mass balance check failed for the following processes: " + info', 'message = "Unbalanced processes -> " + info', "negative control: other message text"),
 ("NC_C18_processes_loop", "C18", "flodym/processes.py", 'return {name: Process(name=name, id=id) for id, name in enumerate(definitions)}', 'out = {}\n    for name in definitions:\n        out[name] = Process(name=name, id=len(out))\n    return out', "negative control: loop instead of comprehension"),
 ("NC_C19_pickle_with_block", "C19", "flodym/export/data_writer.py", 'pickle.dump(dict_out, open(export_path, "wb"))', 'with open(export_path, "wb") as fh:\n        pickle.dump(dict_out, fh, protocol=pickle.HIGHEST_PROTOCOL)', "negative control: with-block and explicit protocol"),
 ("NC_C19_retry_write", "C19", "flodym/export/data_writer.py", '        flow.to_df().to_csv(path_out)', '        try:\n            flow.to_df().to_csv(path_out)\n        except OSError:\n            flow.to_df().to_csv(path_out)  # one retry', "negative control: the CSV writer retries a failed write once"),
 ("NC_C15_copy_deepcopy", "C15", "flodym/flodym_arrays.py", 'return self.model_copy(update={"dims": self.dims.copy(), "values": self.values.copy()})', 'return deepcopy(self)', "negative control: copy() via deepcopy"),
 ("NC_C14_subset_via_ctor", "C14", "flodym/dimensions.py", '        subset = self.copy()\n        if dims is not None:\n            subset.dim_list = [self._full_mapping[dim_key] for dim_key in dims]\n        return subset', '        if dims is None:\n            return DimensionSet(dim_list=list(self.dim_list))\n        return DimensionSet(dim_list=[self._full_mapping[dim_key] for dim_key in dims])', "negative control: get_subset through the constructor"),
 ("NC_C12_dup_via_groupby", "C12", "flodym/_df_to_flodym_array.py", 'if indices.duplicated().any():', 'if len(indices) and len(indices.drop_duplicates()) != len(indices):', "negative control: duplicates found via drop_duplicates"),
 ("NC_C02_loop_sum", "C02", "flodym/mfa_system.py", 'return {p_name: sum(parts) for p_name, parts in contributions.items() if parts}', 'out = {}\n        for p_name, parts in contributions.items():\n            if not parts:\n                continue\n            total = parts[0]\n            for part in parts[1:]:\n                total = total + part\n            out[p_name] = total\n        return out', "negative control: explicit loop instead of sum()"),
 ("NC_C05_copyto", "C05", "flodym/flodym_arrays.py", '            self.values[slice_obj.ids] = copy(item)', '            self.values[slice_obj.ids] = np.array(item, copy=True)', "negative control: np.array(copy=True) instead of copy()"),
 ("NC_C11_multiindex_from_arrays", "C11", "flodym/flodym_arrays.py", '            multiindex = pd.MultiIndex.from_product(\n                [d.items for d in self.dims], names=self.dims.names\n            )', '            import itertools as _it\n            _tuples = list(_it.product(*[d.items for d in self.dims]))\n            multiindex = pd.MultiIndex.from_tuples(_tuples, names=self.dims.names)', "negative control: MultiIndex.from_tuples over itertools.product"),
 ("NC_C18_flows_name_first", "C18", "flodym/flow_helper.py", '        dim_subset = dims.get_subset(flow_definition.dim_letters)\n        flow = Flow(from_process=from_process, to_process=to_process, name=name, dims=dim_subset)', '        flow = Flow(from_process=from_process, to_process=to_process, name=str(name), dims=dims[tuple(flow_definition.dim_letters)] if flow_definition.dim_letters else dims.get_subset(()))', "negative control: subset through [] with a tuple"),
 ("NC_C17_reset_twice", "C17", "flodym/lifetime_models.py", '    def set_prms(self, mean: FlodymArray):\n        self._reset_tables()\n        self.mean = self.cast_any_to_np_array(mean)', '    def set_prms(self, mean: FlodymArray):\n        self._reset_tables()\n        self.mean = self.cast_any_to_np_array(mean)\n        self._reset_tables()', "negative control: tables reset before and after"),
 ("NC_C13_asarray_number", "C13", "flodym/flodym_arrays.py", '            values = np.array(values)\n', '            values = np.asarray(values).reshape(())\n', "negative control: asarray + reshape for 0-d numbers"),
 ("NC_C19_makedirs_exist_ok", "C19", "flodym/export/data_writer.py", '    if not os.path.exists(export_directory):\n        os.makedirs(export_directory)\n    for flow_name', '    os.makedirs(export_directory, exist_ok=True)\n    for flow_name', "negative control: makedirs(exist_ok=True)"),
 ("C18_swap_source_target", "C18", "flodym/flow_helper.py", 'flow = Flow(from_process=from_process, to_process=to_process, name=name, dims=dim_subset)', 'flow = Flow(from_process=to_process, to_process=from_process, name=name, dims=dim_subset)', "source and target swapped"),
 ("C18_ids_from_1", "C18", "flodym/processes.py", 'for id, name in enumerate(definitions)', 'for id, name in enumerate(definitions, start=1)', "process ids start at 1"),
 ("C18_ignore_override", "C18", "flodym/flow_helper.py", 'if flow_definition.name_override is not None:', 'if False:', "name_override ignored"),
 ("C18_ignore_time_letter", "C18", "flodym/stock_helper.py", 'time_letter=stock_definition.time_letter,\n            name=', 'name=', "time_letter not forwarded to the stock"),
 ("C18_items_not_converted", "C18", "flodym/dimensions.py", 'data = [definition.dtype(item) for item in data]', 'data = [item if isinstance(item, str) else definition.dtype(item) for item in data]', "str cells not converted to the declared type"),
 ("C18_header_kept", "C18", "flodym/dimensions.py", 'if data[0] == definition.name:', 'if data[0] == definition.letter:', "header cell with the dimension name kept as an item"),
 ("C18_param_dims_sorted", "C18", "flodym/data_reader.py", 'dim_subset = dims.get_subset(parameter_definition.dim_letters)', 'dim_subset = dims.get_subset(tuple(l for l in dims.letters if l in parameter_definition.dim_letters))', "parameter dims in system order instead of listed order"),
 ("C19_skip_last_flow", "C19", "flodym/export/data_writer.py", 'for flow_name, flow in mfa.flows.items():', 'for flow_name, flow in list(mfa.flows.items())[:max(1, len(mfa.flows) - 1)]:', "CSV export skips the last flow"),
 ("C19_inflow_under_stock_name", "C19", "flodym/export/data_writer.py", 'output_items["inflow"] = stock.inflow', 'output_items["inflow"] = stock.stock', "stock written into the inflow file"),
 ("C19_swallow_oserror", "C19", "flodym/export/data_writer.py", '        flow.to_df().to_csv(path_out)', '        try:\n            flow.to_df().to_csv(path_out)\n        except OSError:\n            logging.warning("could not write")', "failed CSV write swallowed"),
 ("C19_export_sorts_values", "C19", "flodym/export/data_writer.py", 'return array.values\n', 'return np.sort(array.values, axis=None).reshape(array.values.shape) if array.values.ndim > 2 else array.values\n', "numpy export scrambles 3-d arrays"),
 ("C19_dict_mutates_system", "C19", "flodym/export/data_writer.py", 'dict_out["processes"] = [p.name for p in mfa.processes.values()]', 'dict_out["processes"] = [p.name for p in mfa.processes.values()]\n    for f in mfa.flows.values():\n        f.values[...] = np.round(f.values, 1)', "export rounds the system's flows in place"),
]
def main():
    wt = tempfile.mkdtemp(prefix="handmut_", dir="/tmp"); os.rmdir(wt)
    subprocess.run(f"git -C /repo worktree add --detach {wt} HEAD -q", shell=True, check=True)
    idx_path = os.path.join(VERIF, "mutants", "index.json")
    idx = json.load(open(idx_path))
    idx = {k: v for k, v in idx.items() if not k.startswith("hand_")}
    try:
        for name, prop, f, old, new, what in M:
            p = os.path.join(wt, f)
            s = open(p).read()
            if s.count(old) != 1:
                print("SKIP (pattern count %d): %s" % (s.count(old), name)); continue
            s2 = s.replace(old, new)
            if "np." in new and "import numpy as np" not in s2:
                s2 = "import numpy as np\n" + s2
            for glob in ("_BOUNDS_CACHE", "_SF_CACHE"):
                if glob in new:
                    s2 = s2.replace("\n\nclass UnevenTimeDim", f"\n\n{glob} = {{}}\n\n\nclass UnevenTimeDim", 1)
            open(p, "w").write(s2)
            d = subprocess.run(f"git -C {wt} diff", shell=True, capture_output=True, text=True).stdout
            open(os.path.join(VERIF, "mutants", f"hand_{name}.patch"), "w").write(d)
            subprocess.run(f"git -C {wt} checkout -- .", shell=True, check=True)
            idx[f"hand_{name}.patch"] = {"property": prop, "what": what}
            if "negative control" in what:
                idx[f"hand_{name}.patch"]["expect"] = "not_flagged"
    finally:
        subprocess.run(f"git -C /repo worktree remove --force {wt}", shell=True)
    json.dump(idx, open(idx_path, "w"), indent=1)
    print(len([k for k in idx if k.startswith("hand_")]), "hand mutants")
main()
