import json, glob, sys
import jsonschema
schema = json.load(open("/root/.vp/EVIDENCE.schema.json"))
man = json.load(open("/verif/MANIFEST.json"))
jsonschema.validate(man, json.load(open("/root/.vp/MANIFEST.schema.json")))
bad = 0
for c in man["checks"]:
    f = c["evidence_file"]
    try:
        d = json.load(open(f))
        jsonschema.validate(d, schema)
        assert d["level"] == c["level_claimed"]["category"], "level mismatch"
        assert d["property_id"] == c["property_id"]
        print("ok ", f, d["coverage"]["evaluations"], d["coverage"]["distinct_nontrivial"], "viol", d.get("violations"))
    except Exception as e:
        bad += 1
        print("BAD", f, str(e)[:200])
sys.exit(1 if bad else 0)
