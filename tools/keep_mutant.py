#!/venv/bin/python
"""tools/keep_mutant.py <src dir> <id> <property> <caught_by json> <needs text> <what text>"""
import json, os, shutil, sys
src, mid, prop, caught, needs, what = sys.argv[1:7]
dst = os.path.join(os.path.dirname(os.path.dirname(os.path.abspath(__file__))), "seeded", mid)
os.makedirs(dst, exist_ok=True)
for f in ("patch.diff", "demo.py", "notes.md"):
    if os.path.exists(os.path.join(src, f)):
        shutil.copy(os.path.join(src, f), dst)
meta = {"id": mid, "property": prop, "origin": "independent sub-agent (given only the property text and a scratch worktree of /repo)",
        "what": what, "needs": needs,
        "confirmed": "tools/try_mutant.py in a scratch worktree: repo test suite 81 passed with the patch; demo.py FAILs with / PASSes without the patch",
        "caught_by": json.loads(caught)}
json.dump(meta, open(os.path.join(dst, "meta.json"), "w"), indent=1)
print("kept", dst)
