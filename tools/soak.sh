#!/bin/bash
# tools/soak.sh FIRST LAST [thorough-seed]   - multi-seed soak of every quick check (then, optionally, every thorough check once).
# Meant for `vp run -- tools/soak.sh 301 350 12`: outputs go to ./out of the snapshot, replays are copied to /tmp/soak_replays
# because `vp stop` removes the snapshot.  Nothing here writes to /verif/evidence.
mkdir -p /tmp/soak_replays
export VERIF_OUT_DIR=$PWD/out
for s in $(seq "$1" "$2"); do
  for p in C14 C05 C13 C15 C17 C11 C12 C18 C02 C19; do
    VERIF_SEED=$s ./check $p --tier quick 2>&1 | grep -E "VIOLATION|HARNESS|clause=|exit=" | sed "s/^/seed=$s /"
    cp -n out/replays/*.json /tmp/soak_replays/ 2>/dev/null
  done
done
if [ -n "$3" ]; then
  for p in C14 C05 C13 C15 C17 C11 C12 C18 C02 C19; do
    VERIF_SEED=$3 ./check $p --tier thorough 2>&1 | grep -E "VIOLATION|HARNESS|clause=|exit=" | sed "s/^/thorough seed=$3 /"
    cp -n out/replays/*.json /tmp/soak_replays/ 2>/dev/null
  done
fi
echo SOAK-DONE
