#!/venv/bin/python
"""Sensitivity self-test: every kept seeded defect (/verif/seeded/*/patch.diff) and every revert of a fix: commit
(/verif/mutants/revert_*.patch) is applied to a scratch worktree of /repo (never to /repo itself); the quick check of the
property it breaks must report a VIOLATION.  Prints one line per mutant and a summary; exit 1 if one is missed."""
import json
import os
import subprocess
import sys
import tempfile
import shutil

VERIF = os.path.dirname(os.path.dirname(os.path.abspath(__file__)))


def sh(cmd):
    return subprocess.run(cmd, shell=True, capture_output=True, text=True)


def run_one(name, patch, props, tier="quick"):
    wt = tempfile.mkdtemp(prefix=f"sens_{name}_", dir="/tmp")
    os.rmdir(wt)
    out = tempfile.mkdtemp(prefix=f"sensout_{name}_", dir="/tmp")
    res = {}
    try:
        r = sh(f"git -C /repo worktree add --detach {wt} HEAD -q")
        if r.returncode:
            return {"error": r.stderr[-200:]}
        r = sh(f"git -C {wt} apply {patch}")
        if r.returncode:
            return {"error": "patch does not apply: " + r.stderr[-200:]}
        if "--tests" in sys.argv:
            r = sh(f"cd {wt} && /venv/bin/python -m pytest -q -p no:cacheprovider -x tests 2>&1 | tail -1")
            res["_tests"] = r.stdout.strip()
        for p in props:
            env = dict(os.environ, FLODYM_REPO=wt, VERIF_OUT_DIR=out)
            env.pop("PYTHONHASHSEED", None)
            cmd = [os.path.join(VERIF, "check"), p, "--tier", tier]
            if "--jobs" in sys.argv:
                cmd += ["--workers", str(max(2, 16 // int(sys.argv[sys.argv.index("--jobs") + 1])))]
            if "--stride" in sys.argv:
                cmd += ["--stride", sys.argv[sys.argv.index("--stride") + 1]]
            r = subprocess.run(cmd, capture_output=True, text=True, env=env, cwd=VERIF)
            lines = r.stdout.splitlines()
            clauses = sorted({l.strip().split()[0] for l in lines if l.strip().startswith("clause=")})
            res[p] = {"exit": r.returncode, "clauses": clauses}
    finally:
        sh(f"git -C /repo worktree remove --force {wt}")
        shutil.rmtree(out, ignore_errors=True)
    return res


def main():
    only = [a for k, a in enumerate(sys.argv[1:]) if not a.startswith("--") and sys.argv[k] not in ("--jobs", "--stride")]
    jobs = []
    sd = os.path.join(VERIF, "seeded")
    for name in sorted(os.listdir(sd)):
        meta = json.load(open(os.path.join(sd, name, "meta.json")))
        jobs.append((name, os.path.join(sd, name, "patch.diff"), [meta["property"]], "documented_miss" if meta.get("expect") else "flagged"))
    idx = json.load(open(os.path.join(VERIF, "mutants", "index.json")))
    for fname, info in sorted(idx.items()):
        jobs.append((fname.replace(".patch", ""), os.path.join(VERIF, "mutants", fname), [info["property"]] + info.get("also", []),
                     info.get("expect", "flagged")))
    jobs = [j if len(j) == 4 else j + ("flagged",) for j in jobs]
    missed = 0
    table = []
    jobs = [j for j in jobs if not only or any(o in j[0] for o in only)]
    njobs = int(sys.argv[sys.argv.index("--jobs") + 1]) if "--jobs" in sys.argv else 1
    import concurrent.futures as cf
    pool = cf.ThreadPoolExecutor(max_workers=njobs)
    results = pool.map(lambda j: run_one(j[0], j[1], j[2]), jobs)   # yields in order, as they complete
    for (name, patch, props, expect), res in zip(jobs, results):
        if "error" in res:
            print(f"{name}: ERROR {res['error']}", flush=True)
            missed += 1
            continue
        tests = res.pop("_tests", "")
        caught = res[props[0]]["exit"] == 1
        if expect == "not_flagged":
            caught = res[props[0]]["exit"] == 0
        if expect == "documented_miss":
            print(f"{name}: {props[0]} exit={res[props[0]]['exit']} (documented: outside what the property states, see meta.json)", flush=True)
            continue
        note = "" if caught else ("   <-- MISSED" if expect == "flagged" else "   <-- FALSE ALARM on a harmless change")
        print(f"{name}: " + "; ".join(f"{p} exit={v['exit']} {','.join(v['clauses'])}" for p, v in res.items())
              + (f" [tests: {tests}]" if tests else "") + note, flush=True)
        table.append({"mutant": name, "results": res, "caught": caught})
        if not caught:
            missed += 1
    json.dump(table, open(os.path.join("/tmp", "sensitivity_last.json"), "w"), indent=1)
    print(f"sensitivity: {len(table) - missed}/{len(table)} mutants caught by the check of the property they break")
    return 1 if missed else 0


if __name__ == "__main__":
    sys.exit(main())
