#!/venv/bin/python
"""tools/mutsweep.py gen | run [--jobs N] [--stride K] [--only FILE] | report
Systematic first-order mutation sweep of flodym as a blind-spot finder for the checks (complements the seeded defects written by
sub-agents: those are limited by the agents' imagination, this is limited by the operator list).

  gen     parse the flodym sources that the claimed properties are anchored in and write /tmp/ms/mutants.jsonl: one record per
          mutant (file, line, operator, replaced text span).  Operators: comparison swaps, and<->or, dropped `not`, negated `if`
          / `while` tests, statement -> pass (calls, assignments, raise, assert), `return x` -> `return None`, unwrapped copies
          (`x.copy()`, `np.array(x)`, `list(x)`, `deepcopy(x)` -> `x`), integer / boolean constants, + <-> -, * <-> /.
  run     N parallel workers, each with its own scratch worktree of /repo (never /repo itself): write the mutated file, run the
          repository's own test suite (a mutant the tests kill is of no interest: the brief asks for changes that pass them),
          then the quick checks of the properties that the file is mapped to, thinned (--stride) and on 2 worker processes each,
          FLODYM_REPO=<worktree>, outputs in a scratch directory.  Appends one line per mutant to /tmp/ms/results.jsonl; restartable.
  report  summary and the list of survivors (tests pass, no mapped check reports a violation) for triage.

Nothing here is a registered check; the sweep never writes to /verif/evidence or /verif/replays."""
import ast
import json
import os
import subprocess
import sys
import tempfile
import concurrent.futures as cf

VERIF = os.path.dirname(os.path.dirname(os.path.abspath(__file__)))
MS = "/tmp/ms"

FILES = {
    "flodym/dimensions.py": ["C14", "C15", "C05", "C18"],
    "flodym/flodym_arrays.py": ["C05", "C13", "C15", "C11", "C02"],
    "flodym/flodym_array_helper.py": ["C15", "C13"],
    "flodym/_df_to_flodym_array.py": ["C11", "C12", "C18"],
    "flodym/data_reader.py": ["C18", "C12"],
    "flodym/lifetime_models.py": ["C17", "C13"],
    "flodym/stocks.py": ["C17", "C13", "C15"],
    "flodym/mfa_system.py": ["C02", "C18", "C17"],
    "flodym/mfa_definition.py": ["C18", "C19"],
    "flodym/stock_helper.py": ["C18", "C17", "C15"],
    "flodym/flow_helper.py": ["C18", "C19"],
    "flodym/flow_naming.py": ["C18", "C19"],
    "flodym/processes.py": ["C18", "C02"],
    "flodym/export/data_writer.py": ["C19"],
    "flodym/export/helper.py": ["C19"],
}

CMP = {ast.Eq: "!=", ast.NotEq: "==", ast.Lt: "<=", ast.LtE: "<", ast.Gt: ">=", ast.GtE: ">", ast.In: "not in", ast.NotIn: "in",
       ast.Is: "is not", ast.IsNot: "is"}
UNWRAP = {"copy", "deepcopy", "array", "list", "asarray", "ascontiguousarray"}


def sh(cmd, **kw):
    return subprocess.run(cmd, shell=True, capture_output=True, text=True, **kw)


class Src:
    def __init__(self, text):
        self.text = text
        self.lines = text.splitlines(keepends=True)
        self.off = [0]
        for ln in self.lines:
            self.off.append(self.off[-1] + len(ln.encode("utf8")))
        self.bytes = text.encode("utf8")

    def pos(self, line, col):
        return self.off[line - 1] + col

    def span(self, node):
        return self.pos(node.lineno, node.col_offset), self.pos(node.end_lineno, node.end_col_offset)

    def seg(self, a, b):
        return self.bytes[a:b].decode("utf8")


def gen_file(rel, text):
    src = Src(text)
    tree = ast.parse(text)
    out = []

    def add(node, op, a, b, new):
        out.append({"file": rel, "line": node.lineno, "op": op, "a": a, "b": b, "old": src.seg(a, b), "new": new})

    parents = {}
    for n in ast.walk(tree):
        for c in ast.iter_child_nodes(n):
            parents[c] = n

    def in_class_body(n):
        return isinstance(parents.get(n), ast.ClassDef)

    def is_str(n):
        return isinstance(n, ast.JoinedStr) or (isinstance(n, ast.Constant) and isinstance(n.value, str))

    for n in ast.walk(tree):
        if isinstance(n, ast.Compare):
            left = n.left
            for o, right in zip(n.ops, n.comparators):
                a = src.span(left)[1]
                b = src.span(right)[0]
                if type(o) in CMP:
                    add(n, "cmp:" + type(o).__name__, a, b, " " + CMP[type(o)] + " ")
                if isinstance(o, (ast.Lt, ast.LtE)):
                    add(n, "cmpflip:" + type(o).__name__, a, b, " > ")
                if isinstance(o, (ast.Gt, ast.GtE)):
                    add(n, "cmpflip:" + type(o).__name__, a, b, " < ")
                left = right
        elif isinstance(n, ast.BoolOp):
            for x, y in zip(n.values, n.values[1:]):
                a, b = src.span(x)[1], src.span(y)[0]
                seg = src.seg(a, b)
                if "(" in seg or ")" in seg:
                    continue
                add(n, "bool:" + type(n.op).__name__, a, b, " or " if isinstance(n.op, ast.And) else " and ")
        elif isinstance(n, ast.UnaryOp) and isinstance(n.op, ast.Not):
            a, b = src.span(n)
            oa, ob = src.span(n.operand)
            add(n, "dropnot", a, b, "(" + src.seg(oa, ob) + ")")
        elif isinstance(n, (ast.If, ast.While)) and not isinstance(n.test, (ast.Compare, ast.UnaryOp)):
            a, b = src.span(n.test)
            add(n, "negtest", a, b, "not (" + src.seg(a, b) + ")")
        elif isinstance(n, ast.IfExp) and not isinstance(n.test, (ast.Compare, ast.UnaryOp)):
            a, b = src.span(n.test)
            add(n, "negtest", a, b, "not (" + src.seg(a, b) + ")")
        elif isinstance(n, (ast.Expr, ast.Assign, ast.AugAssign, ast.Raise, ast.Assert, ast.AnnAssign)):
            if in_class_body(n) or isinstance(parents.get(n), ast.Module):
                continue
            if isinstance(n, ast.Expr) and is_str(n.value):
                continue
            if isinstance(n, ast.AnnAssign) and n.value is None:
                continue
            a, b = src.span(n)
            add(n, "del:" + type(n).__name__, a, b, "pass")
        elif isinstance(n, ast.Return) and n.value is not None and not (isinstance(n.value, ast.Constant) and n.value.value is None):
            a, b = src.span(n)
            add(n, "retnone", a, b, "return None")
        elif isinstance(n, ast.Call):
            f = n.func
            name = f.attr if isinstance(f, ast.Attribute) else (f.id if isinstance(f, ast.Name) else None)
            if name == "copy" and isinstance(f, ast.Attribute) and not n.args and not n.keywords:
                a, b = src.span(n)
                oa, ob = src.span(f.value)
                add(n, "unwrap:.copy()", a, b, src.seg(oa, ob))
            elif name in UNWRAP and len(n.args) == 1 and not n.keywords and not isinstance(n.args[0], (ast.GeneratorExp, ast.Starred)):
                a, b = src.span(n)
                oa, ob = src.span(n.args[0])
                add(n, "unwrap:" + name, a, b, "(" + src.seg(oa, ob) + ")")
        elif isinstance(n, ast.Constant):
            if in_class_body(parents.get(n)) and False:
                continue
            a, b = src.span(n)
            if n.value is True:
                add(n, "const:bool", a, b, "False")
            elif n.value is False:
                add(n, "const:bool", a, b, "True")
            elif isinstance(n.value, int) and not isinstance(n.value, bool):
                add(n, "const:int", a, b, "1" if n.value == 0 else ("0" if n.value == 1 else str(n.value + 1)))
                if n.value == 1:
                    add(n, "const:int2", a, b, "2")
        elif isinstance(n, ast.BinOp) and type(n.op) in (ast.Add, ast.Sub, ast.Mult, ast.Div):
            if is_str(n.left) or is_str(n.right) or isinstance(n.left, ast.BinOp) and is_str(getattr(n.left, "right", None)):
                continue
            a, b = src.span(n.left)[1], src.span(n.right)[0]
            seg = src.seg(a, b)
            if "(" in seg or ")" in seg:
                continue
            new = {ast.Add: " - ", ast.Sub: " + ", ast.Mult: " / ", ast.Div: " * "}[type(n.op)]
            add(n, "arith:" + type(n.op).__name__, a, b, new)
    # keep only mutants that still compile
    good = []
    for m in out:
        newsrc = src.bytes[:m["a"]] + m["new"].encode() + src.bytes[m["b"]:]
        try:
            compile(newsrc, rel, "exec")
        except SyntaxError:
            continue
        good.append(m)
    return good


def cmd_gen():
    os.makedirs(MS, exist_ok=True)
    allm = []
    for rel in FILES:
        text = open(os.path.join("/repo", rel)).read()
        ms = gen_file(rel, text)
        print(rel, len(ms))
        allm += ms
    # interleave files so that a partial run covers all of them
    allm.sort(key=lambda m: (m["line"] % 7, m["file"], m["line"], m["a"], m["op"]))
    for i, m in enumerate(allm):
        m["id"] = i
    with open(os.path.join(MS, "mutants.jsonl"), "w") as f:
        for m in allm:
            f.write(json.dumps(m) + "\n")
    print("total", len(allm))


def work(args):
    wid, muts, stride = args
    wt = os.path.join(MS, f"wt{wid}")
    out = os.path.join(MS, f"out{wid}")
    if not os.path.exists(wt):
        r = sh(f"git -C /repo worktree add --detach {wt} HEAD -q")
        assert r.returncode == 0, r.stderr
    env = dict(os.environ, PYTHONDONTWRITEBYTECODE="1")
    env.pop("PYTHONHASHSEED", None)
    res = []
    for m in muts:
        path = os.path.join(wt, m["file"])
        orig = open(os.path.join("/repo", m["file"]), "rb").read()
        rec = {"id": m["id"], "file": m["file"], "line": m["line"], "op": m["op"], "old": m["old"][:200], "new": m["new"][:200]}
        try:
            open(path, "wb").write(orig[:m["a"]] + m["new"].encode() + orig[m["b"]:])
            r = subprocess.run("/venv/bin/python -m pytest -x -q -p no:cacheprovider --timeout=300 tests 2>&1 | tail -1", shell=True, cwd=wt,
                               capture_output=True, text=True, env=env, timeout=900)
            last = r.stdout.strip()
            rec["tests"] = "pass" if (" passed" in last and "failed" not in last and "error" not in last) else "fail"
            if rec["tests"] == "pass":
                rec["checks"] = {}
                for p in FILES[m["file"]]:
                    e2 = dict(env, FLODYM_REPO=wt, VERIF_OUT_DIR=out)
                    try:
                        r = subprocess.run([os.path.join(VERIF, "check"), p, "--tier", "quick", "--stride", str(stride), "--workers", "2"],
                                           capture_output=True, text=True, env=e2, cwd=VERIF, timeout=900)
                        lines = r.stdout.splitlines()
                        clauses = sorted({l.strip().split()[0] for l in lines if l.strip().startswith("clause=")})
                        rec["checks"][p] = {"exit": r.returncode, "clauses": clauses[:4]}
                        if r.returncode == 2:
                            rec["checks"][p]["tail"] = r.stdout[-300:]
                    except subprocess.TimeoutExpired:
                        rec["checks"][p] = {"exit": "timeout"}
                    if rec["checks"][p]["exit"] == 1:
                        break
                sh(f"rm -rf {out}")
        except Exception as e:  # noqa
            rec["error"] = repr(e)[:200]
        finally:
            open(path, "wb").write(orig)
        with open(os.path.join(MS, "results.jsonl"), "a") as f:
            f.write(json.dumps(rec) + "\n")
        res.append(rec["id"])
    return res


def cmd_run():
    jobs = int(sys.argv[sys.argv.index("--jobs") + 1]) if "--jobs" in sys.argv else 6
    stride = int(sys.argv[sys.argv.index("--stride") + 1]) if "--stride" in sys.argv else 16
    only = sys.argv[sys.argv.index("--only") + 1] if "--only" in sys.argv else None
    limit = int(sys.argv[sys.argv.index("--limit") + 1]) if "--limit" in sys.argv else None
    muts = [json.loads(l) for l in open(os.path.join(MS, "mutants.jsonl"))]
    done = set()
    if os.path.exists(os.path.join(MS, "results.jsonl")):
        done = {json.loads(l)["id"] for l in open(os.path.join(MS, "results.jsonl"))}
    muts = [m for m in muts if m["id"] not in done and (only is None or only in m["file"])]
    if limit:
        muts = muts[:limit]
    print("to do", len(muts), "jobs", jobs, flush=True)
    chunks = [muts[i::jobs] for i in range(jobs)]
    try:
        with cf.ProcessPoolExecutor(max_workers=jobs) as pool:
            for r in pool.map(work, [(i, c, stride) for i, c in enumerate(chunks)]):
                print("worker done", len(r), flush=True)
    finally:
        for i in range(jobs):
            sh(f"git -C /repo worktree remove --force {MS}/wt{i}")
    print("MUTSWEEP-DONE")


def cmd_report():
    recs = {}
    for l in open(os.path.join(MS, "results.jsonl")):
        r = json.loads(l)
        recs[r["id"]] = r
    n = len(recs)
    killed_tests = sum(1 for r in recs.values() if r.get("tests") == "fail")
    surv = [r for r in recs.values() if r.get("tests") == "pass"]
    caught = [r for r in surv if any(c["exit"] == 1 for c in r.get("checks", {}).values())]
    herr = [r for r in surv if any(c["exit"] not in (0, 1) for c in r.get("checks", {}).values())]
    alive = [r for r in surv if r not in caught and r not in herr]
    print(f"mutants run {n}: killed by the test suite {killed_tests}, pass the tests {len(surv)}; of those: reported by a mapped check "
          f"{len(caught)}, harness error / timeout {len(herr)}, not reported {len(alive)}")
    if "--alive" in sys.argv:
        for r in sorted(alive, key=lambda r: (r["file"], r["line"])):
            print(f'{r["id"]:5d} {r["file"]}:{r["line"]} {r["op"]}: {r["old"]!r} -> {r["new"]!r}')
    if "--herr" in sys.argv:
        for r in herr:
            print(r)


def cmd_try():
    """try <id>[,<id>...] PROP [PROP...] [--full]: one mutant of mutants.jsonl in a scratch worktree against the named checks"""
    ids = [int(x) for x in sys.argv[2].split(",")]
    props = [a for a in sys.argv[3:] if not a.startswith("--")]
    muts = {m["id"]: m for m in (json.loads(l) for l in open(os.path.join(MS, "mutants.jsonl")))}
    for mid in ids:
        m = muts[mid]
        wt = tempfile.mkdtemp(prefix=f"mst{mid}_", dir="/tmp")
        os.rmdir(wt)
        out = tempfile.mkdtemp(prefix=f"mstout{mid}_", dir="/tmp")
        try:
            assert sh(f"git -C /repo worktree add --detach {wt} HEAD -q").returncode == 0
            orig = open(os.path.join("/repo", m["file"]), "rb").read()
            open(os.path.join(wt, m["file"]), "wb").write(orig[:m["a"]] + m["new"].encode() + orig[m["b"]:])
            for p in props:
                env = dict(os.environ, FLODYM_REPO=wt, VERIF_OUT_DIR=out, PYTHONDONTWRITEBYTECODE="1")
                env.pop("PYTHONHASHSEED", None)
                cmd = [os.path.join(VERIF, "check"), p, "--tier", "quick"] + ([] if "--full" in sys.argv else ["--stride", "8"])
                r = subprocess.run(cmd, capture_output=True, text=True, env=env, cwd=VERIF)
                det = [l.strip()[:230] for l in r.stdout.splitlines() if l.strip().startswith("clause=")][:2]
                print(mid, f'{m["file"]}:{m["line"]}', m["op"], p, "exit", r.returncode, det, flush=True)
        finally:
            sh(f"git -C /repo worktree remove --force {wt}")
            sh(f"rm -rf {out}")


if __name__ == "__main__":
    {"gen": cmd_gen, "run": cmd_run, "report": cmd_report, "try": cmd_try}[sys.argv[1]]()
