#!/venv/bin/python
"""tools/try_mutant.py <dir with patch.diff [+ demo.py]> PROP [PROP...] [--tier quick] [--keep]
Applies the patch to a scratch worktree of /repo (never to /repo itself), confirms that the repo's test
suite still passes and that the demo fails, then runs the named checks against the scratch tree
(FLODYM_REPO=<worktree>, outputs under a scratch VERIF_OUT_DIR) and reports which of them raise a VIOLATION."""
import json
import os
import shutil
import subprocess
import sys
import tempfile

VERIF = os.path.dirname(os.path.dirname(os.path.abspath(__file__)))


def sh(cmd, **kw):
    return subprocess.run(cmd, shell=True, capture_output=True, text=True, **kw)


def main():
    args = [a for a in sys.argv[1:] if not a.startswith("--")]
    tier = "quick"
    if "--tier" in sys.argv:
        tier = sys.argv[sys.argv.index("--tier") + 1]
        args.remove(tier)
    mdir = os.path.abspath(args[0])
    props = args[1:]
    name = os.path.basename(mdir.rstrip("/"))
    wt = tempfile.mkdtemp(prefix=f"mut_{name}_", dir="/tmp")
    os.rmdir(wt)
    out = tempfile.mkdtemp(prefix=f"mutout_{name}_", dir="/tmp")
    result = {"mutant": name, "props": {}}
    try:
        r = sh(f"git -C /repo worktree add --detach {wt} HEAD -q")
        assert r.returncode == 0, r.stderr
        r = sh(f"git -C {wt} apply {mdir}/patch.diff")
        if r.returncode != 0:
            result["error"] = "patch does not apply: " + r.stderr[-300:]
            print(json.dumps(result))
            return 2
        if "--no-tests" not in sys.argv:
            r = sh(f"cd {wt} && /venv/bin/python -m pytest -q -p no:cacheprovider -x tests 2>&1 | tail -1")
            result["tests"] = r.stdout.strip()
        demo = os.path.join(mdir, "demo.py")
        if os.path.exists(demo):
            r = sh(f"cd {wt} && PYTHONPATH={wt} /venv/bin/python {demo} 2>&1 | tail -2")
            result["demo_with_patch"] = r.stdout.strip()[-200:]
            r2 = sh(f"cd /repo && PYTHONPATH=/repo /venv/bin/python {demo} 2>&1 | tail -1")
            result["demo_clean"] = r2.stdout.strip()[-100:]
        for p in props:
            env = dict(os.environ, FLODYM_REPO=wt, VERIF_OUT_DIR=out)
            env.pop("PYTHONHASHSEED", None)
            r = subprocess.run([os.path.join(VERIF, "check"), p, "--tier", tier], capture_output=True, text=True, env=env, cwd=VERIF)
            lines = r.stdout.splitlines()
            viol = [l for l in lines if l.startswith("VIOLATION")]
            detail = [l.strip() for l in lines if l.strip().startswith("clause=")]
            herr = [l for l in lines if l.startswith("HARNESS-ERROR")]
            result["props"][p] = {"exit": r.returncode, "violations": len(viol), "detail": detail[:4], "harness": herr[:2],
                                  "summary": lines[-1] if lines else ""}
        print(json.dumps(result, indent=1))
    finally:
        sh(f"git -C /repo worktree remove --force {wt}")
        if "--keep" not in sys.argv:
            shutil.rmtree(out, ignore_errors=True)
        else:
            print("outputs kept in", out)
    return 0


if __name__ == "__main__":
    sys.exit(main())
