#!/venv/bin/python
import json, sys
for f in sys.argv[1:]:
    d = json.load(open(f))
    w = d["run"]["world"]
    print("==", f, d["clause"])
    print(" violation:", d["violation"]["detail"])
    print(" tags:", d["violation"]["tags"])
    if "layout" in w:
        print(" dims:", [(x["letter"], x["items"][:5], x["dtype"]) for x in w["dims"]], "zeros", w["zeros"])
        print(" layout:", w["layout"], w["medium"], w["consumer"], w["flags"])
    print(" ops:", json.dumps(d["run"]["ops"]))
