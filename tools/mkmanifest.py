#!/venv/bin/python
"""Regenerates /verif/MANIFEST.json from the table below and validates it against the schema."""
import json
import os
import sys

VERIF = os.path.dirname(os.path.dirname(os.path.abspath(__file__)))

BASELINE = ("cd /repo && /venv/bin/python -m pytest -ra -q -p no:cacheprovider --timeout=900 "
            "--continue-on-collection-errors tests")

# property -> (engine, level, technique, level text, level note, design ref)
CLAIMED = {
    "C14": ("dimsim", "exploration",
            "deterministic simulation: seeded operation histories vs ordered-list reference model, in-place-mutation independence probes, exhaustive 65x65 pair table",
            "Seeded search over histories of in-place/out-of-place DimensionSet operations (one integer -> one replayable op list), "
            "every pooled set compared with an ordered-list model after every step, an in-place mutation probe on every out-of-place "
            "result, ill-formed (clashing) calls injected; plus complete enumeration of all ordered pairs of sub-lists of a 4-dimension "
            "alphabet for the binary operators and of all ordered selections. Sampling for the histories, exhaustive only for the table.",
            "Trusted: the ordered-list model in engines/dimsim.py; dimensions compared by (letter, name, items, dtype). "
            "No threads/clock/I-O exist for this property; the simulated nondeterminism is the operation order and operand aliasing.",
            "5.2"),
    "C05": ("arraysim", "exploration",
            "deterministic simulation: seeded assignment histories on a shared array pool vs by-label reference model, ill-formed calls injected",
            "Seeded search over histories of public-API operations on a shared pool of arrays (operands are products of the history: views, "
            "einsum-transposed views, sources overlapping the target, results of failed calls). At every target[key] = rhs step the by-label "
            "reference (explicit loops over label tuples) decides: dims/shape kept, entries outside the addressed region unchanged, FlodymArray "
            "source summed by label or rejected when it lacks a region dimension, number fills the region, whole-array ndarray must have the exact "
            "shape, assigned ndarray is copied. Sampling, not proof.",
            "Trusted: the reference model in engines/arrayworld.py + oracle_c05; integer-valued data so that sums are exact. List keys with a "
            "FlodymArray source and keyed ndarray sources (beyond dims/outside-region/copy) are not asserted.",
            "5.1"),
    "C13": ("arraysim", "fault_enumeration",
            "deterministic simulation with fault injection: ill-formed calls (every wrong-shape variant) and sys.settrace line-event interrupts inside operations; invariants after every step",
            "Histories as for C05, with faults: every wrong-shape ndarray variant handed to constructors/set_values/[...]=, ill-formed stock and "
            "lifetime-model constructions, ill-formed keys, damaged DataFrames; the shape invariant is re-checked on every reachable array after "
            "every step; any non-injected exception must leave every reachable array bitwise unchanged; sweep tasks enumerate the line-event "
            "crash points (MemoryError / KeyboardInterrupt raised by a sys.settrace injector) of one mutating operation per sampled history and "
            "demand the shape invariant afterwards. Fault space per sampled operation enumerated (all shape variants exist as generator choices; "
            "all crash points of the chosen op up to a cap), histories sampled.",
            "Trusted: snapshots compare values bitwise + dims by (letter,name,items,dtype). After an injected interrupt only the shape invariant "
            "is demanded. Crash points are Python line boundaries inside flodym's own files.",
            "5.1"),
    "C15": ("arraysim", "exploration",
            "deterministic simulation: seeded histories with deep snapshots of all inputs and write-through probes (values and dimension sets) on every returned array",
            "Histories as for C05. For every operation that is not explicitly in place every reachable array and every raw input (ndarray, DataFrame, "
            "DimensionSet) is compared with its pre-step snapshot, whether the call returned or raised. For results of copy, arithmetic, cast_to, "
            "full_like, slice reads and split: np.shares_memory must be false and a sentinel written into the result (and into each source) must not "
            "show up on the other side. For every new array: its DimensionSet is not the source's object and an in-place append/drop on either "
            "side does not show on the other. An ndarray assigned through [] is mutated afterwards and must not reach the target.",
            "Trusted: snapshot comparison (values bitwise, dims, and the writeable flag of the buffer); the probes restore what they wrote. Aliasing that the property does not forbid (sum_to without reduction, "
            "FlodymArray(dims, values=nd)) is not flagged.",
            "5.1"),
    "C17": ("stocksim", "fault_enumeration",
            "deterministic simulation with fault injection: seeded recompute histories, sys.settrace crash points inside compute/sf/pdf/set_prms, fresh-object refinement oracle after every compute",
            "Seeded histories of {set driver, set_prms, compute, read sf/pdf} on every stock class x lifetime model x solver x grid kind, incl. two "
            "stocks sharing one lifetime model and a definition-built stock inside an MFASystem whose compute() is re-run; faults: ill-formed "
            "parameters and interrupts (MemoryError / KeyboardInterrupt from a sys.settrace injector) at line events inside compute / sf / pdf / "
            "set_prms; sweep tasks enumerate every crash point of one operation and then recompute. After every compute() that returns, all "
            "results (stock, inflow, outflow, cohort tables, sf, pdf) must be bitwise equal to those of a freshly built object holding copies of "
            "the current inputs (the driver arrays it holds and the parameters last handed to set_prms), and a second compute() must change nothing. Parameters are set and read through the handle the caller kept of the "
            "lifetime model it handed to the stock. 30 % of the runs execute in pristine forked processes and compare every compute with the same "
            "inputs computed in another pristine process (module / class level state). Crash points of sampled operations are enumerated, histories sampled.",
            "Trusted: the fresh object runs the same real code (history independence needs no independent DSM arithmetic). Steps that raise or "
            "are interrupted are not judged; the next successful compute is. Crash points are Python line boundaries in flodym's own files.",
            "5.3"),
    "C11": ("iochan", "exploration",
            "deterministic simulation of the import channel, benign configuration: seeded table trips through real to_df / CSV / Excel / readers with row and column permutations, frame-model oracle",
            "One run simulates one table travelling producer -> header style -> layout -> medium -> consumer (real to_df or an independent "
            "serialiser; names / letters / mixed / items-only headers; long or wide over any dimension; dims in index or columns; omitted "
            "single-item dims; DataFrame, CSV text on a scratch disk read by pd.read_csv, CSVParameterReader, ExcelParameterReader; from_df or "
            "set_values_from_df) with only benign perturbations (row / column permutations). The import must return exactly the exported array; "
            "to_df must list every entry once (sparse: exactly the non-zero ones); whenever an import returns, every entry comes from the unique "
            "row carrying its labels. Includes worlds with one dimension of > 32767 items, counter dimensions 0..n-1, nested item sets, unnamed "
            "index levels and 'Unnamed: k' columns, an unnamed index of calendar years, tables without a header line (first record read as header), "
            "a named columns axis, infinite values, a complete line of NaN through the wide export, values that repeat a dimension's labels, documented defaults left out of the calls, and 30 % "
            "safety-only runs with harmful record faults judged by the last sentence of the property alone. Partial fit: the only genuinely simulated parts are the "
            "file media and the permutation 'faults'; the rest is the fault-free baseline of the C12 machine.",
            "Trusted: the frame model and expectation() in engines/iochan.py. Layouts are generated only inside what the property promises "
            "(values cannot be mistaken for items; pairwise different item sets; items-only headers with dimension columns in front; untyped int "
            "wide headers not through text media).",
            "5.4"),
    "C12": ("iochan", "fault_enumeration",
            "deterministic simulation with fault injection on the import channel: stored-record faults, column faults, CSV truncation, OSError on open, settrace interrupts; per-world enumeration of every single fault",
            "Same machine as C11 with harmful faults between producer and consumer: drop / duplicate (same or other value) / relabel to unknown or "
            "to another known item / blank value / blank label rows / a whole category missing; drop a dimension column, add an unmatched value "
            "column, rename a wide item column, a second column for one item under a differently written head; a reader object that has read the "
            "path before, when the file still held the intact table; truncate the CSV file at a line boundary or mid-line; OSError on open (through pandas.io.common.open); interrupts inside "
            "set_values_from_df; all four flag combinations. The expected outcome (must raise / lenient result / either-but-never-wrong-data) is "
            "derived from the harness's frame model after faults; a refused import must leave the sentinel-filled target bitwise unchanged; after "
            "the fault the intact table must import into the same target. 'enum' tasks enumerate every single record/column fault of a sampled "
            "world; everything else is sampled.",
            "Trusted: frame model + expectation(). Cases the property leaves open (unknown items in an items-inferred column, blank label cells, "
            "duplicated unknown rows, an emptied table, the torn line of a mid-line truncation) only demand 'raise or lenient result, never wrong data'.",
            "5.4"),
    "C18": ("syssim", "exploration",
            "deterministic simulation of system construction: generated definition programs and dimension/parameter files on a scratch disk through every public build path, definition and file faults injected",
            "Seeded generation of definition programs (processes, flows incl. parallel/opposing with overrides, stocks of every class / lifetime "
            "model / solver, parameters, naming functions) and of their dimension and parameter files (CSV / Excel, one row or one column, with or "
            "without header, named sheets or first sheet with a decoy, permuted dict orders), built through direct helpers, from_data_reader, "
            "from_csv and from_excel. Fault-free builds are compared field by field with the definition; every injected definition or file fault "
            "(undefined dimension / process, missing or unused lifetime model, time not first, sysenv not first, 2-D dimension file, missing file or "
            "sheet, dropped / duplicated parameter row) must be refused. Every system is built a second time from the same definition objects; on "
            "the file paths through reader objects the caller kept, after the files were rewritten in place with other labels. Partial fit: a classmethod that raises returns nothing, so the fault "
            "dimension is thin; what the simulation adds is generated programs and the file boundary.",
            "Trusted: sysworld.py (writers of the files) and _compare_system. Item tokens are chosen to survive pandas' CSV type/NA inference.",
            "5.5"),
    "C02": ("syssim", "fault_enumeration",
            "deterministic simulation of a material economy: conserved parcel bookings on generated system graphs, conservation faults (lost/duplicated mass, NaN, negative entries) and heals, by-label reference verdict after every batch; per-system enumeration of every array entry",
            "On generated system graphs (any number of processes, idle processes, parallel / opposing flows, flows of differing dimensionality incl. "
            "0-d, with or without stocks, stocks without a process) integer-mass parcels are booked along closed walks through sysenv, optionally "
            "parked in a stock and released at a later time label, so fault-free histories are exactly balanced; conservation faults change one "
            "entry by >= 2 tol or <= tol/2, to NaN, or to a negative value, and heals undo them. After every batch check_mass_balance / "
            "check_flows run in both modes with explicit and default tolerance and are judged against a by-label reference (explicit loops, "
            "math.fsum) computed from the current arrays: pass <=> within tolerance, raise or warning otherwise, NaN never success, pass again "
            "after heal, exactly the flagged flows named. Further faults: +inf / -inf pairs, two neighbouring flows at once, entries 4 ppm above / below an "
            "explicit tolerance, and graph edits between two checks (a stock moved to another process, a flow replaced by one of the same name "
            "between other processes); documented defaults are left out of about half of the calls. 'entrysweep' tasks fault every entry of every array of sampled systems.",
            "Trusted: ref_imbalance / ref_default_tolerance in engines/syssim.py. Verdicts with an imbalance in (tol/2, 2 tol) are skipped (with an explicit tolerance and whole-number data: only within a few ulp of the tolerance). Honest "
            "scope: check_mass_balance is a pure function of the arrays; the simulation contributes balanced-by-construction systems of arbitrary "
            "shape, exact ground truth for each injected fault, and fault/heal histories.",
            "5.5"),
    "C19": ("syssim", "fault_enumeration",
            "deterministic simulation with disk fault injection: exports through failing open()/write()/makedirs seams and settrace interrupts, re-import oracle, recovery export; per-system enumeration of every open() index x byte budgets",
            "Generated systems (names with spaces, arrows, punctuation) filled with pairwise distinct values are exported by convert_to_dict (numpy / "
            "pandas), pickle, flows / stocks CSV (new / existing / nested directories) and MFADefinition.to_dfs while the simulator owns the open() "
            "seen by pandas.io.common and flodym.export.data_writer and os.makedirs: open fails at the k-th file, write fails after n bytes "
            "(ENOSPC / EIO / EACCES), makedirs fails, interrupts. Oracles: the system equals its snapshot after every export; a fault-free export "
            "holds every flow / stock / dimension / process / endpoint, reads back with from_df (pandas form, CSV files) into identical arrays, one "
            "file per flow and per exported stock quantity and nothing else new; an export whose write failed must not return normally; repeating "
            "the export into the same location afterwards succeeds; flows and stocks exported into one directory leave each other's files alone. "
            "Worlds include user-supplied stock arrays with their own labels, a 110-character process name, and systems reassembled by hand with the processes in another order; the snapshot includes the writeable flag of every array. "
            "'iosweep' tasks fault every open() index x a grid of byte budgets.",
            "Trusted: the failing-file wrappers and _judge_export. Content of files left by a failed export is not judged. 0-dimensional arrays are "
            "only required to hold their value (they have no labels to read back by).",
            "5.5"),
}

PLANNED = {}

NOT_APPLICABLE = {
    "C01": "pure function of two arrays (quantifier: inputs/configurations, decided symbolically); no schedule, clock, fault, I/O or history that a simulator could own - checking it would be input generation in simulator vocabulary (DESIGN.md 6)",
    "C03": "numerical identity of one compute() call as a function of (driver, parameters, grid); the time axis is data, not a clock the code reads; nothing to schedule or fault (DESIGN.md 6)",
    "C04": "metamorphic identity of single calls under permutation of storage order; pure function of inputs (DESIGN.md 6)",
    "C06": "by-label identity of single read/write calls; pure function of inputs (the write half is exercised as part of C05's region oracle) (DESIGN.md 6)",
    "C07": "linear identities of single calls (sum_to/cast_to/shares); pure function of inputs (DESIGN.md 6)",
    "C08": "the survival table is a pure function of (distribution, parameters, grid, quadrature); nothing history- or fault-dependent (DESIGN.md 6)",
    "C09": "cohort-table identities of one compute() call; pure function of inputs (DESIGN.md 6)",
    "C10": "inverse/solver-agreement identities between single compute() calls; pure function of inputs (DESIGN.md 6)",
    "C16": "causality/linearity are algebraic properties of the map driver -> results; the 'time' is an array axis, not simulated time (DESIGN.md 6)",
    "C20": "rendering of figures from arrays; pure, and the plotting back ends are outside any seam worth owning (DESIGN.md 6)",
}


def main():
    props = [json.loads(l)["id"] for l in open(os.path.join(VERIF, "properties.jsonl"))]
    checks = []
    for pid in props:
        if pid not in CLAIMED:
            continue
        eng, level, tech, text, note, ref = CLAIMED[pid]
        checks.append({
            "property_id": pid,
            "quick_cmd": f"./check {pid} --tier quick",
            "thorough_cmd": f"./check {pid} --tier thorough",
            "evidence_file": f"/verif/evidence/{pid}.json",
            "replay_cmd_template": f"./check {pid} --replay {{path}}",
            "engine": eng,
            "level_claimed": {"category": level, "text": text, "design_ref": "DESIGN.md section " + ref},
            "level_note": note,
            "technique": tech,
        })
    na = []
    for pid in props:
        if pid in CLAIMED:
            continue
        if pid in NOT_APPLICABLE:
            na.append({"property_id": pid, "reason": NOT_APPLICABLE[pid]})
        else:
            na.append({"property_id": pid, "reason": "not claimed yet: " + PLANNED.get(pid, "check planned in DESIGN.md but not built at this commit")})
    engines = {}
    for pid, v in CLAIMED.items():
        engines.setdefault(v[0], []).append(pid)
    manifest = {
        "version": 1,
        "setup_cmd": "/venv/bin/python -m compileall -q /verif/simkit /verif/engines /verif/tools && /verif/check --version",
        "hooks": {
            "guard": "FLODYM_VERIF_SIM",
            "enable": "no source hooks exist in /repo: every seam (operation order, sys.settrace crash points, module-level open/os of pandas.io.common and flodym.export.data_writer, scratch directory as simulated disk, root logger) is reachable from outside; the guard variable is read by the harness only",
            "baseline_off_cmd": BASELINE,
            "source_commits": [],
            "add_only": True,
        },
        "engines": [{"name": n, "path": f"/verif/engines/{n}.py", "serves_properties": sorted(p),
                     "kind_free_text": "seeded deterministic simulation engine (generate -> execute -> oracle -> minimise -> replay)"}
                    for n, p in sorted(engines.items())],
        "checks": checks,
        "not_applicable": na,
        "notes": "Technique family: deterministic simulation with fault injection. ./check re-executes itself with PYTHONHASHSEED=0, imports flodym from /repo's working tree, "
                 "derives every choice from VERIF_SEED, writes /verif/evidence/<id>.json, reports VIOLATION lines with minimised replay files under /verif/replays/. "
                 "Exit 2 = harness error (never a verdict). fix: commits in /repo are listed in known_findings.json. A violation that does not reproduce from its own "
                 "operation list but does from the runs its worker process executed before it is reported with a replay file of format 'process-history'.",
    }
    path = os.path.join(VERIF, "MANIFEST.json")
    with open(path, "w") as f:
        json.dump(manifest, f, indent=1)
        f.write("\n")
    try:
        import jsonschema
        schema = json.load(open("/root/.vp/MANIFEST.schema.json"))
        jsonschema.validate(manifest, schema)
        print("MANIFEST.json valid;", len(checks), "checks,", len(na), "not_applicable")
    except ImportError:
        print("MANIFEST.json written (jsonschema not available for validation)")


if __name__ == "__main__":
    sys.exit(main())
