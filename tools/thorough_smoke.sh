#!/bin/bash
# tools/thorough_smoke.sh SEED [BUDGET_S] - every thorough check once under a reduced wall budget (tasks beyond the budget are skipped and
# counted as such): confirms that the thorough-only task kinds (sweeps, enumerations, entry sweeps) run clean on the unchanged tree.
export VERIF_OUT_DIR=$PWD/out
mkdir -p /tmp/soak_replays
for p in C17 C12 C11 C02 C18 C19 C05 C13 C15 C14; do
  VERIF_SEED=$1 VERIF_BUDGET_S=${2:-240} ./check $p --tier thorough 2>&1 | grep -E "VIOLATION|HARNESS|clause=|exit=" | sed "s/^/thorough seed=$1 /"
  cp -n out/replays/*.json /tmp/soak_replays/ 2>/dev/null
done
echo THOROUGH-SMOKE-DONE
